#!/bin/bash
# run the quick check of a property against one seeded change, on a scratch copy of /repo
# usage: run_seeded.sh <seeded-id> [PROP] [extra vcheck args]
id=$1; prop=${2:-${id%%-*}}; shift; shift
S=$(mktemp -d /tmp/seedrun-XXXX)
cp -r /repo/Cargo.toml /repo/Cargo.lock /repo/src $S/
(cd $S && git init -q . && git apply /verif/seeded/$id/patch.diff) || { echo "apply failed"; exit 3; }
VERIF_EVID_DIR=/tmp/seed-evid VERIF_REPO=$S VERIF_SCRATCH=${VERIF_SCRATCH:-/tmp/fg} ${VCHECK:-/verif/vcheck} $prop "$@" > /tmp/seedrun-$id-$prop.log 2>&1
rc=$?
echo "$id $prop rc=$rc $(grep -c VIOLATION /tmp/seedrun-$id-$prop.log) violations; $(grep -E 'check=' /tmp/seedrun-$id-$prop.log | head -2 | cut -c1-200 | tr '\n' ' ')"
rm -rf $S
