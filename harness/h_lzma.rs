// Harnesses over src/decode/lzma.rs (child module: sees DecoderState's private fields and
// process_next_inner / process_mode / try_process_next / read_partial_input_buf).
#![allow(dead_code, unused_imports, unused_variables, unused_mut)]

use super::*;
use crate::decode::rangecoder::verif_h::{
    bt_addr, len_choice2_addr, len_choice_addr, len_high_addr, len_low_addr, len_mid_addr, oracle_decode_bit,
    oracle_get_bit,
};
use crate::util::vec2d::verif_h::{mk_vec2d, vec2d_addr, vec2d_cell, vec2d_cols, vec2d_len, vec2d_set};
use crate::verif_common::*;
use crate::verif_spec::*;
use std::io::{BufRead, Read, Write};
use crate::decompress::{Options, UnpackedSize};

pub const NB: usize = 56; // decisions on the oracle tape (longest symbol: 48)

// ---------------------------------------------------------------------------------------
// Loop-free decoder state
// ---------------------------------------------------------------------------------------

/// A DecoderState built by struct literal: the literal table is an array-repeat expression
/// (no 0x300 << (lc+lp) fill loop). `DecoderState::new` itself is checked in the C14 harnesses.
pub fn light_state<const CELLS: usize>(props: LzmaProperties, unpacked_size: Option<u64>) -> DecoderState {
    DecoderState {
        partial_input_buf: std::io::Cursor::new([0; MAX_REQUIRED_INPUT]),
        lzma_props: props,
        unpacked_size,
        literal_probs: mk_vec2d(Box::new([0x400u16; CELLS]) as Box<[u16]>, 0x300),
        pos_slot_decoder: [BitTree::new(), BitTree::new(), BitTree::new(), BitTree::new()],
        align_decoder: BitTree::new(),
        pos_decoders: [0x400; 115],
        is_match: [0x400; 192],
        is_rep: [0x400; 12],
        is_rep_g0: [0x400; 12],
        is_rep_g1: [0x400; 12],
        is_rep_g2: [0x400; 12],
        is_rep_0long: [0x400; 192],
        state: 0,
        rep: [0; 4],
        len_decoder: LenDecoder::new(),
        rep_len_decoder: LenDecoder::new(),
    }
}

/// Address of the probability cell with logical name (table, idx) inside `d`, or None when
/// idx is outside the table.
pub fn cell_addr(d: &DecoderState, table: u8, idx: usize) -> Option<usize> {
    match table {
        T_DIRECT => Some(0),
        T_IS_MATCH => {
            if idx < 192 {
                Some(&d.is_match[idx] as *const u16 as usize)
            } else {
                None
            }
        }
        T_IS_REP => {
            if idx < 12 {
                Some(&d.is_rep[idx] as *const u16 as usize)
            } else {
                None
            }
        }
        T_IS_REP_G0 => {
            if idx < 12 {
                Some(&d.is_rep_g0[idx] as *const u16 as usize)
            } else {
                None
            }
        }
        T_IS_REP_G1 => {
            if idx < 12 {
                Some(&d.is_rep_g1[idx] as *const u16 as usize)
            } else {
                None
            }
        }
        T_IS_REP_G2 => {
            if idx < 12 {
                Some(&d.is_rep_g2[idx] as *const u16 as usize)
            } else {
                None
            }
        }
        T_IS_REP0_LONG => {
            if idx < 192 {
                Some(&d.is_rep_0long[idx] as *const u16 as usize)
            } else {
                None
            }
        }
        T_LIT => {
            if idx < vec2d_len(&d.literal_probs) {
                Some(vec2d_addr(&d.literal_probs, idx))
            } else {
                None
            }
        }
        T_LEN_CHOICE => Some(len_choice_addr(if idx == 0 { &d.len_decoder } else { &d.rep_len_decoder })),
        T_LEN_CHOICE2 => Some(len_choice2_addr(if idx == 0 { &d.len_decoder } else { &d.rep_len_decoder })),
        T_LEN_LOW | T_LEN_MID => {
            let rep = idx / 128;
            let ps = (idx % 128) / 8;
            let m = idx % 8;
            if rep > 1 {
                return None;
            }
            let l = if rep == 0 { &d.len_decoder } else { &d.rep_len_decoder };
            Some(if table == T_LEN_LOW {
                len_low_addr(l, ps, m)
            } else {
                len_mid_addr(l, ps, m)
            })
        }
        T_LEN_HIGH => {
            let rep = idx / 256;
            let m = idx % 256;
            if rep > 1 {
                return None;
            }
            Some(len_high_addr(if rep == 0 { &d.len_decoder } else { &d.rep_len_decoder }, m))
        }
        T_POS_SLOT => {
            let ls = idx / 64;
            let m = idx % 64;
            if ls > 3 {
                return None;
            }
            Some(bt_addr(&d.pos_slot_decoder[ls], m))
        }
        T_POS_DEC => {
            if idx < 115 {
                Some(&d.pos_decoders[idx] as *const u16 as usize)
            } else {
                None
            }
        }
        T_ALIGN => {
            if idx < 16 {
                Some(bt_addr(&d.align_decoder, idx))
            } else {
                None
            }
        }
        _ => None,
    }
}

// ---------------------------------------------------------------------------------------
// Oracle reader: decisions come from `bits`; the stubs report the cell address via consume()
// ---------------------------------------------------------------------------------------
pub struct OracleReader {
    /// decision k is bit k of `bits`
    pub bits: u64,
    pub n: usize,
    pub avail: usize,
    /// the universally quantified position whose cell address is recorded
    pub k: usize,
    pub rec: usize,
    cur: [u8; 1],
}

impl OracleReader {
    pub fn new(bits: u64, avail: usize, k: usize) -> Self {
        OracleReader {
            bits,
            n: 0,
            avail,
            k,
            rec: 0,
            cur: [0],
        }
    }
}

impl Read for OracleReader {
    fn read(&mut self, _dst: &mut [u8]) -> std::io::Result<usize> {
        Ok(0)
    }
}

impl BufRead for OracleReader {
    fn fill_buf(&mut self) -> std::io::Result<&[u8]> {
        if self.n < self.avail {
            self.cur[0] = ((self.bits >> self.n) & 1) as u8;
            Ok(&self.cur[..])
        } else {
            Ok(&self.cur[..0])
        }
    }
    fn consume(&mut self, addr: usize) {
        if self.n == self.k {
            self.rec = addr;
        }
        self.n += 1;
    }
}

/// Reference side of the oracle: same bits, logs logical cell names.
pub struct TapeSrc {
    pub bits: u64,
    pub n: usize,
    pub avail: usize,
    pub k: usize,
    pub rec_tab: u8,
    pub rec_idx: usize,
    pub code: u32,
}

impl BitSrc for TapeSrc {
    fn bit(&mut self, table: u8, idx: usize) -> Option<bool> {
        if self.n >= self.avail {
            return None;
        }
        let b = (self.bits >> self.n) & 1 == 1;
        if self.n == self.k {
            self.rec_tab = table;
            self.rec_idx = idx;
        }
        self.n += 1;
        Some(b)
    }
    fn direct(&mut self) -> Option<bool> {
        self.bit(T_DIRECT, 0)
    }
    fn finished_ok(&mut self) -> bool {
        self.code == 0 && self.n == self.avail
    }
}

// ---------------------------------------------------------------------------------------
// Ghost window: an LzBuffer that answers queries from a fixed 8-byte history and records the
// requested operation instead of copying.
// ---------------------------------------------------------------------------------------
pub struct GhostWindow {
    pub total: usize,
    pub dict: usize,
    pub hist: [u8; 8],
    pub far: u8,
    pub ops: usize,
    pub op_kind: u8, // 1 literal, 2 lz
    pub op_a: usize, // literal byte | lz len
    pub op_b: usize, // lz dist
    pub sink: RecSink<1>,
}

impl GhostWindow {
    pub fn new(total: usize, dict: usize, hist: [u8; 8], far: u8) -> Self {
        GhostWindow {
            total,
            dict,
            hist,
            far,
            ops: 0,
            op_kind: 0,
            op_a: 0,
            op_b: 0,
            sink: RecSink::<1>::new(),
        }
    }
    pub fn legal(&self, dist: usize) -> bool {
        dist >= 1 && dist <= self.total && dist <= self.dict
    }
    pub fn byte_back(&self, dist: usize) -> u8 {
        if dist <= 8 {
            self.hist[8 - dist]
        } else {
            self.far
        }
    }
}

impl Win for GhostWindow {
    fn total(&self) -> usize {
        self.total
    }
    fn back(&self, dist: usize) -> Option<u8> {
        if self.legal(dist) {
            Some(self.byte_back(dist))
        } else {
            None
        }
    }
}

fn ghost_err() -> error::Error {
    error::Error::LzmaError(String::new())
}

impl LzBuffer<RecSink<1>> for GhostWindow {
    fn len(&self) -> usize {
        self.total
    }
    fn last_or(&self, lit: u8) -> u8 {
        if self.total == 0 {
            lit
        } else {
            self.hist[7]
        }
    }
    fn last_n(&self, dist: usize) -> error::Result<u8> {
        if self.legal(dist) {
            Ok(self.byte_back(dist))
        } else {
            Err(ghost_err())
        }
    }
    fn append_literal(&mut self, lit: u8) -> error::Result<()> {
        self.ops += 1;
        self.op_kind = 1;
        self.op_a = lit as usize;
        Ok(())
    }
    fn append_lz(&mut self, len: usize, dist: usize) -> error::Result<()> {
        self.ops += 1;
        self.op_kind = 2;
        self.op_a = len;
        self.op_b = dist;
        if self.legal(dist) {
            Ok(())
        } else {
            Err(ghost_err())
        }
    }
    fn get_output(&self) -> &RecSink<1> {
        &self.sink
    }
    fn get_output_mut(&mut self) -> &mut RecSink<1> {
        &mut self.sink
    }
    fn finish(self) -> std::io::Result<RecSink<1>> {
        Ok(self.sink)
    }
    fn into_output(self) -> RecSink<1> {
        self.sink
    }
}

// ---------------------------------------------------------------------------------------
// C01-H4 / C05-H3: one symbol of the real process_next_inner against the transcription
// ---------------------------------------------------------------------------------------

fn rep_eq(a: &[usize; 4], b: &[usize; 4]) -> bool {
    a[0] == b[0] && a[1] == b[1] && a[2] == b[2] && a[3] == b[3]
}

/// PROPS: 0 = symbolic (lc,lp,pb) with lc+lp<=4 ; otherwise concrete lc*100+lp*10+pb+1000
fn one_symbol<const CELLS: usize, const PROPS: usize, const UPDATE: bool>() {
    let mut t = Tape::<120>::new();
    let bits = t.u64();
    let avail = (t.u8() as usize) % (NB + 1);
    let k = (t.u8() as usize) % NB;
    let state = t.u8() as usize;
    let rep = [t.u32() as usize, t.u32() as usize, t.u32() as usize, t.u32() as usize];
    let total = t.usize();
    let dict = t.u32() as usize;
    let hist: [u8; 8] = t.bytes::<8>();
    let far = t.u8();
    let code = t.u32();
    let (lc, lp, pb) = if PROPS == 1 {
        let lc = (t.u8() % 9) as u32;
        let lp = (t.u8() % 5) as u32;
        let pb = (t.u8() % 5) as u32;
        (lc, lp, pb)
    } else if PROPS == 0 {
        let lc = (t.u8() % 5) as u32;
        let lp = (t.u8() % 5) as u32;
        let pb = (t.u8() % 5) as u32;
        assume(lc + lp <= 4);
        (lc, lp, pb)
    } else {
        (((PROPS - 1000) / 100) as u32, (((PROPS - 1000) / 10) % 10) as u32, ((PROPS - 1000) % 10) as u32)
    };
    assume(state < 12);
    assume(dict >= 1);
    assume(total < (1usize << 62));

    // --- real code under the bit oracle
    // the size in effect is symbolic: one symbol's decoding must not depend on it (overshoot is
    // detected by the caller's size rules, never repaired by shortening a copy)
    let us_some = t.bool();
    let us_val = t.u64();
    let mut d = light_state::<CELLS>(LzmaProperties { lc, lp, pb }, if us_some { Some(us_val) } else { None });
    d.state = state;
    d.rep = rep;
    let mut ghost = GhostWindow::new(total, dict, hist, far);
    let mut rd = OracleReader::new(bits, avail, k);
    let res = {
        let mut rc = RangeDecoder::from_parts(&mut rd, 0xFFFF_FFFF, code);
        d.process_next_inner(&mut ghost, &mut rc, UPDATE)
    };
    let r_ok = res.is_ok();
    let r_fin = match &res {
        Ok(ProcessingStatus::Finished) => true,
        _ => false,
    };
    forget(res);

    // --- transcription on the same decisions
    let mut st = SpecSt { state, rep };
    let view = GhostWindow::new(total, dict, hist, far);
    let mut src = TapeSrc {
        bits,
        n: 0,
        avail,
        k,
        rec_tab: 0,
        rec_idx: 0,
        code,
    };
    let out = spec_symbol(Props { lc, lp, pb }, &mut st, &view, &mut src);

    // --- transcript: same number of decisions, and at any position the same cell
    vassert!(rd.n == src.n, "symbol: same number of decisions as the specification");
    if k < src.n {
        let a = cell_addr(&d, src.rec_tab, src.rec_idx);
        match a {
            Some(addr) => {
                // direct bits report address 0; adaptive decisions report cell | update flag
                let want = if addr == 0 { 0 } else { addr | (UPDATE as usize) };
                vassert!(rd.rec == want, "symbol: every decision uses the probability cell the specification names (and adapts it only when update is set)");
            }
            None => {
                vassert!(false, "symbol: specification cell index inside its table");
            }
        }
    }

    if UPDATE {
        match out {
            SpecOut::Lit(b) => {
                vassert!(r_ok && !r_fin, "symbol: literal -> Ok(Continue)");
                vassert!(ghost.ops == 1 && ghost.op_kind == 1 && ghost.op_a == b as usize, "symbol: literal byte equals specification");
                vassert!(d.state == st.state, "symbol: state after literal");
                vassert!(rep_eq(&d.rep, &st.rep), "symbol: rep unchanged by literal");
                vcover!(state >= 7 && src.n == 9, "matched_literal");
                
            }
            SpecOut::Copy { len, dist } => {
                vassert!(ghost.ops == 1 && ghost.op_kind == 2, "symbol: copy -> exactly one append_lz");
                vassert!(ghost.op_a == len, "symbol: copy length equals specification");
                vassert!(ghost.op_b == dist, "symbol: copy distance equals specification");
                vassert!(dist >= 1, "symbol: append_lz distance >= 1");
                vassert!(r_ok == view.legal(dist), "symbol: copy Ok iff the distance is inside the window");
                vassert!(!r_fin, "symbol: copy never finishes the stream");
                vassert!(d.state == st.state, "symbol: state after match/rep");
                vassert!(rep_eq(&d.rep, &st.rep), "symbol: rep LRU equals specification");
                vcover!(src.n == 48, "longest_match_48_decisions");
                vcover!(len == 1, "short_rep");
                
                
            }
            SpecOut::Marker => {
                vassert!(r_ok && r_fin, "symbol: end marker with clean coder -> Finished");
                vassert!(ghost.ops == 0, "symbol: end marker touches no window");
                vcover!(true, "marker");
            }
            SpecOut::MarkerBad => {
                vassert!(!r_ok, "symbol: end marker with bytes left or code != 0 -> Err");
                vassert!(ghost.ops == 0, "symbol: bad end marker touches no window");
                
            }
            SpecOut::Short => {
                vassert!(!r_ok, "symbol: exhausted input -> Err");
                vassert!(ghost.ops == 0, "symbol: exhausted input touches no window");
                
            }
            SpecOut::BadMatchByte => {
                vassert!(!r_ok, "symbol: matched literal with rep0 outside the window -> Err");
                vassert!(ghost.ops == 0, "symbol: bad match byte touches no window");
                vassert!(d.state == state && rep_eq(&d.rep, &rep), "symbol: bad match byte leaves state");
                
            }
            SpecOut::BadIndex => {
                vassert!(false, "symbol: specification index out of table");
            }
        }
        if r_ok {
            vassert!(d.state < 12, "symbol: state stays < 12");
            vassert!(
                d.rep[0] <= 0xFFFF_FFFF && d.rep[1] <= 0xFFFF_FFFF && d.rep[2] <= 0xFFFF_FFFF && d.rep[3] <= 0xFFFF_FFFF,
                "symbol: reps stay 32-bit"
            );
        }
    } else {
        // dry run (update = false): same decisions, nothing changes, no window mutation
        vassert!(ghost.ops == 0, "dry run: no window mutation");
        vassert!(d.state == state && rep_eq(&d.rep, &rep), "dry run: state and reps untouched");
        let short = match out {
            SpecOut::Short => true,
            _ => false,
        };
        let badmb = match out {
            SpecOut::BadMatchByte => true,
            _ => false,
        };
        vassert!(r_ok == !(short || badmb), "dry run: Err iff input exhausted (or the match byte is outside the window)");
        vassert!(!r_fin, "dry run: never reports Finished");
        
        vcover!(r_ok && src.n == 48, "dry_longest");
    }
    forget(d);
}

//@ harness props=C01,C07,C08,C02 tier=quick for=C07:thorough,C08:thorough unwind=10 unwindset=RangeDecoder.*E3getB:28,decode_distance:28 mem_gb=10 timeout=1500 native=no opt_covers=dry_longest
//@ bound: ONE symbol of process_next_inner(update=true) from every valid state (state<12, reps 32-bit, any window length/dict/history, any coder code), any 50 decision bits, symbolic (lc,lp,pb) with lc+lp<=4 (12288-cell table); decode_bit/get_bit replaced by the bit oracle
#[cfg_attr(kani, kani::proof)]
#[cfg_attr(kani, kani::stub(std::fmt::format, crate::verif_common::stub_format))]
#[cfg_attr(kani, kani::stub(std::io::Error::is_interrupted, crate::verif_common::stub_not_interrupted))]
#[cfg_attr(kani, kani::stub(crate::decode::rangecoder::RangeDecoder::decode_bit, crate::decode::rangecoder::verif_h::oracle_decode_bit))]
#[cfg_attr(kani, kani::stub(crate::decode::rangecoder::RangeDecoder::get_bit, crate::decode::rangecoder::verif_h::oracle_get_bit))]
pub fn sym_conformance_symprops() {
    one_symbol::<12288, 0, true>()
}

//@ harness props=C01 tier=thorough unwind=10 unwindset=RangeDecoder.*E3getB:28,decode_distance:28 mem_gb=10 timeout=1800 native=no opt_covers=dry_longest
//@ bound: ONE symbol, update=true, lc=3 lp=0 pb=2 (6144 cells), every valid state, any 50 decision bits
#[cfg_attr(kani, kani::proof)]
#[cfg_attr(kani, kani::stub(std::fmt::format, crate::verif_common::stub_format))]
#[cfg_attr(kani, kani::stub(std::io::Error::is_interrupted, crate::verif_common::stub_not_interrupted))]
#[cfg_attr(kani, kani::stub(crate::decode::rangecoder::RangeDecoder::decode_bit, crate::decode::rangecoder::verif_h::oracle_decode_bit))]
#[cfg_attr(kani, kani::stub(crate::decode::rangecoder::RangeDecoder::get_bit, crate::decode::rangecoder::verif_h::oracle_get_bit))]
pub fn sym_conformance_lc3_lp0_pb2() {
    one_symbol::<6144, 1302, true>()
}

//@ harness props=C05,C15,C13 tier=quick unwind=10 unwindset=RangeDecoder.*E3getB:28,decode_distance:28 mem_gb=10 timeout=1500 native=no opt_covers=matched_literal,longest_match_48_decisions,short_rep,marker
//@ bound: ONE symbol of process_next_inner(update=false) (the streaming dry run) from every valid state, lc=0 lp=0 pb=0..: symbolic props lc+lp<=4
#[cfg_attr(kani, kani::proof)]
#[cfg_attr(kani, kani::stub(std::fmt::format, crate::verif_common::stub_format))]
#[cfg_attr(kani, kani::stub(std::io::Error::is_interrupted, crate::verif_common::stub_not_interrupted))]
#[cfg_attr(kani, kani::stub(crate::decode::rangecoder::RangeDecoder::decode_bit, crate::decode::rangecoder::verif_h::oracle_decode_bit))]
#[cfg_attr(kani, kani::stub(crate::decode::rangecoder::RangeDecoder::get_bit, crate::decode::rangecoder::verif_h::oracle_get_bit))]
pub fn sym_dry_run_symprops() {
    one_symbol::<12288, 0, false>()
}

// ---------------------------------------------------------------------------------------
// Abstract symbols: a loop-free stand-in for process_next_inner used where the subject is the
// glue around it (process_mode, Stream, the LZMA2 chunk loop), not symbol decoding.
// The glue never looks at compressed bytes, reps or the decoder state number, so the script of
// the next symbols is kept in fields the glue does not touch:
//   d.state = index of the next symbol (mod 4), d.rep[i] = length_i | kind_i << 8
//   length 1..=20 bytes (like a real symbol); kind 0 literal, 1 end marker, 2 corrupt symbol
//   fewer than `length` bytes visible -> Err (what the real decoder reports when input runs out)
//   value = first ^ last byte; (range, code) are folded with first/last so that the coder
//   state after a symbol depends on every committed symbol, in order.
// Lengths are therefore concrete per harness instance while all bytes stay symbolic (a
// data-dependent length makes every buffer offset symbolic, measured to explode).
// Contract it stands for (decided elsewhere): one real symbol consumes <= 20 bytes (argued in
// DESIGN), update=false consumes/decides the same and changes nothing (sym_dry_run_*).
// ---------------------------------------------------------------------------------------
pub const K_LIT: usize = 0;
pub const K_MARKER: usize = 1;
pub const K_BAD: usize = 2;
/// a symbol that produces three bytes (stands for a match: can overshoot a declared size)
pub const K_WIDE: usize = 3;
pub fn script(len: usize, kind: usize) -> usize {
    len | (kind << 8)
}
pub static DRY_SEEN: std::sync::atomic::AtomicUsize = std::sync::atomic::AtomicUsize::new(0);
pub static DRY_RANGE: std::sync::atomic::AtomicUsize = std::sync::atomic::AtomicUsize::new(0);
pub static DRY_CODE: std::sync::atomic::AtomicUsize = std::sync::atomic::AtomicUsize::new(0);
pub fn abs_fold(range: u32, code: u32, first: u8, last: u8) -> (u32, u32) {
    (
        range.rotate_left(3) ^ (first as u32) ^ 0x9E37_0000,
        code.rotate_left(5) ^ (first as u32) ^ ((last as u32) << 8),
    )
}

pub fn abs_symbol<W, LZB, R>(
    d: &mut DecoderState,
    output: &mut LZB,
    rc: &mut RangeDecoder<'_, R>,
    update: bool,
) -> error::Result<ProcessingStatus>
where
    W: std::io::Write,
    LZB: LzBuffer<W>,
    R: std::io::BufRead,
{
    let sc = d.rep[d.state & 3];
    let l = sc & 0xFF;
    let kind = sc >> 8;
    if !update {
        // remember with which coder state the last dry run was made
        DRY_RANGE.store(rc.range as usize, std::sync::atomic::Ordering::Relaxed);
        DRY_CODE.store(rc.code as usize, std::sync::atomic::Ordering::Relaxed);
        DRY_SEEN.store(1, std::sync::atomic::Ordering::Relaxed);
    }
    let (first, last) = {
        let buf = match rc.stream.fill_buf() {
            Ok(b) => b,
            Err(e) => return Err(error::Error::IoError(e)),
        };
        if buf.len() < l {
            return Err(error::Error::LzmaError(String::new()));
        }
        (buf[0], buf[l - 1])
    };
    rc.stream.consume(l);
    let (nr, nc) = abs_fold(rc.range, rc.code, first, last);
    rc.range = nr;
    rc.code = nc;
    if kind == K_BAD {
        return Err(error::Error::LzmaError(String::new()));
    }
    if update {
        if kind == K_MARKER {
            d.state = (d.state + 1) & 3;
            return match rc.is_finished_ok() {
                Ok(true) => Ok(ProcessingStatus::Finished),
                Ok(false) => Err(error::Error::LzmaError(String::new())),
                Err(e) => Err(error::Error::IoError(e)),
            };
        }
        match output.append_literal(first ^ last) {
            Ok(()) => {}
            Err(e) => return Err(e),
        }
        if kind == K_WIDE {
            match output.append_literal(first) {
                Ok(()) => {}
                Err(e) => return Err(e),
            }
            match output.append_literal(last) {
                Ok(()) => {}
                Err(e) => return Err(e),
            }
        }
        d.state = (d.state + 1) & 3;
    }
    Ok(ProcessingStatus::Continue)
}

/// A window that just records literals (abstract symbols only append literals).
pub struct SeqWindow<const S: usize> {
    pub base: usize,
    pub out: [u8; S],
    pub n: usize,
    pub sink: RecSink<1>,
    pub overflow: bool,
}
impl<const S: usize> SeqWindow<S> {
    pub fn new(base: usize) -> Self {
        SeqWindow {
            base,
            out: [0; S],
            n: 0,
            sink: RecSink::<1>::new(),
            overflow: false,
        }
    }
}
impl<const S: usize> LzBuffer<RecSink<1>> for SeqWindow<S> {
    fn len(&self) -> usize {
        self.base + self.n
    }
    fn last_or(&self, lit: u8) -> u8 {
        lit
    }
    fn last_n(&self, _dist: usize) -> error::Result<u8> {
        Ok(0)
    }
    fn append_literal(&mut self, lit: u8) -> error::Result<()> {
        if self.n < S {
            self.out[self.n] = lit;
            self.n += 1;
        } else {
            self.overflow = true;
        }
        Ok(())
    }
    fn append_lz(&mut self, _len: usize, _dist: usize) -> error::Result<()> {
        Ok(())
    }
    fn get_output(&self) -> &RecSink<1> {
        &self.sink
    }
    fn get_output_mut(&mut self) -> &mut RecSink<1> {
        &mut self.sink
    }
    fn finish(self) -> std::io::Result<RecSink<1>> {
        Ok(self.sink)
    }
    fn into_output(self) -> RecSink<1> {
        self.sink
    }
}

/// C05-H2 / C15: one call of process_stream (Partial mode) from an ARBITRARY carry-over state.
///   P  bytes already in partial_input_buf, R bytes offered by the reader (concrete shape),
///   Q = carry ++ input is cut into symbols of lengths L1, L2, L3 (concrete), a 4th symbol
///   header follows if bytes remain. Contents, kinds (literal only here) and (range, code)
///   are symbolic.
/// Queue semantics: exactly the symbols that are complete in Q are committed, in order; the
/// uncommitted suffix is the new carry; the reader is drained; (range, code) advance by the
/// committed symbols; nothing else changes.
fn partial_step<const P: usize, const R: usize, const L1: usize, const L2: usize, const L3: usize>() {
    let mut t = Tape::<64>::new();
    let mut q: [u8; 40] = t.bytes::<40>();
    let range = t.u32();
    let code = t.u32();
    let total = P + R;
    let offs = [0usize, L1, L1 + L2, L1 + L2 + L3];
    let lens = [L1, L2, L3, 20usize];
    // expected commits: symbols fully inside Q[..total]
    let mut ncommit = 0usize;
    let mut used = 0usize;
    let mut er = range;
    let mut ec = code;
    let mut vals = [0u8; 4];
    let mut j = 0;
    while j < 4 {
        if ncommit == j && offs[j] + lens[j] <= total {
            let f = q[offs[j]];
            let l = q[offs[j] + lens[j] - 1];
            vals[j] = f ^ l;
            let (a, b) = abs_fold(er, ec, f, l);
            er = a;
            ec = b;
            ncommit = j + 1;
            used = offs[j] + lens[j];
        }
        j += 1;
    }
    DRY_SEEN.store(0, std::sync::atomic::Ordering::Relaxed);
    let mut d = light_state::<0>(LzmaProperties { lc: 0, lp: 0, pb: 0 }, None);
    d.state = 0;
    d.rep = [script(L1, K_LIT), script(L2, K_LIT), script(L3, K_LIT), script(20, K_LIT)];
    {
        let buf = d.partial_input_buf.get_mut();
        let mut c = 0;
        while c < P {
            buf[c] = q[c];
            c += 1;
        }
    }
    d.partial_input_buf.set_position(P as u64);
    let mut input = [0u8; R];
    let mut c = 0;
    while c < R {
        input[c] = q[P + c];
        c += 1;
    }
    let mut rd = ArrReader::<R>::new(input, R);
    let mut win = SeqWindow::<4>::new(0);
    let (res_ok, r_range, r_code) = {
        let mut rc = RangeDecoder::from_parts(&mut rd, range, code);
        let r = d.process_stream(&mut win, &mut rc);
        let ok = r.is_ok();
        forget(r);
        (ok, rc.range, rc.code)
    };
    vassert!(res_ok, "partial: a call on well-formed (possibly incomplete) symbols succeeds");
    vassert!(win.n == ncommit && !win.overflow, "partial: commits exactly the symbols that are complete in carry++input");
    let mut m = 0;
    while m < 4 {
        if m < ncommit {
            vassert!(win.out[m] == vals[m], "partial: committed symbols in order with the right values");
        }
        m += 1;
    }
    vassert!(r_range == er && r_code == ec, "partial: (range, code) advanced exactly by the committed symbols");
    vassert!(rd.pos == R, "partial: the reader is drained");
    let carry = d.partial_input_buf.position() as usize;
    vassert!(carry == total - used, "partial: the carry is exactly the uncommitted suffix");
    vassert!(carry < MAX_REQUIRED_INPUT, "partial: fewer than 20 bytes stay uncommitted");
    if carry > 0 {
        // the call ended on a failed dry run of the first uncommitted symbol: it must have been
        // made with the coder state as it stands after the committed symbols
        vassert!(DRY_SEEN.load(std::sync::atomic::Ordering::Relaxed) == 1, "partial: an incomplete tail is detected by a dry run");
        vassert!(
            DRY_RANGE.load(std::sync::atomic::Ordering::Relaxed) == er as usize && DRY_CODE.load(std::sync::atomic::Ordering::Relaxed) == ec as usize,
            "partial: the dry run is made with the current (range, code)"
        );
    }
    let x = (t.u8() as usize) % 20;
    if x < carry {
        vassert!(d.partial_input_buf.get_ref()[x] == q[used + x], "partial: carry bytes are the uncommitted bytes, in order");
    }
    vassert!(d.state == ncommit & 3, "partial: decoder state advanced once per committed symbol");
    vcover!(ncommit >= 1 && carry >= 1, "commit_and_carry");
    vcover!(ncommit == 0, "nothing_committed");
    vcover!(true, "end_reached");
    forget(d);
}

// ----- partial-mode step instances (generated list of boundary shapes) -----

//@ harness props=C05,C15,C11 tier=quick unwind=22 unwindset=process_mode:7 mem_gb=4 timeout=600 native=no opt_covers=commit_and_carry,nothing_committed
//@ bound: one process_stream call: carry 0 bytes, reader 6 bytes, symbol lengths 5,20,1(,20); contents/range/code symbolic; abstract symbols
#[cfg_attr(kani, kani::proof)]
#[cfg_attr(kani, kani::stub(std::fmt::format, crate::verif_common::stub_format))]
#[cfg_attr(kani, kani::stub(std::io::Error::is_interrupted, crate::verif_common::stub_not_interrupted))]
#[cfg_attr(kani, kani::stub(crate::decode::lzma::DecoderState::process_next_inner, crate::decode::lzma::verif_h::abs_symbol))]
pub fn partial_p0_r6_l5_20_1() {
    partial_step::<0, 6, 5, 20, 1>()
}

//@ harness props=C05,C15,C11 tier=quick unwind=22 unwindset=process_mode:7 mem_gb=4 timeout=600 native=no opt_covers=commit_and_carry,nothing_committed
//@ bound: one process_stream call: carry 0 bytes, reader 5 bytes, symbol lengths 5,20,1(,20); contents/range/code symbolic; abstract symbols
#[cfg_attr(kani, kani::proof)]
#[cfg_attr(kani, kani::stub(std::fmt::format, crate::verif_common::stub_format))]
#[cfg_attr(kani, kani::stub(std::io::Error::is_interrupted, crate::verif_common::stub_not_interrupted))]
#[cfg_attr(kani, kani::stub(crate::decode::lzma::DecoderState::process_next_inner, crate::decode::lzma::verif_h::abs_symbol))]
pub fn partial_p0_r5_l5_20_1() {
    partial_step::<0, 5, 5, 20, 1>()
}

//@ harness props=C05,C15,C11 tier=quick unwind=22 unwindset=process_mode:7 mem_gb=4 timeout=600 native=no opt_covers=commit_and_carry,nothing_committed
//@ bound: one process_stream call: carry 0 bytes, reader 4 bytes, symbol lengths 5,20,1(,20); contents/range/code symbolic; abstract symbols
#[cfg_attr(kani, kani::proof)]
#[cfg_attr(kani, kani::stub(std::fmt::format, crate::verif_common::stub_format))]
#[cfg_attr(kani, kani::stub(std::io::Error::is_interrupted, crate::verif_common::stub_not_interrupted))]
#[cfg_attr(kani, kani::stub(crate::decode::lzma::DecoderState::process_next_inner, crate::decode::lzma::verif_h::abs_symbol))]
pub fn partial_p0_r4_l5_20_1() {
    partial_step::<0, 4, 5, 20, 1>()
}

//@ harness props=C05,C15,C11,C13 tier=quick unwind=22 unwindset=process_mode:7 mem_gb=4 timeout=600 native=no opt_covers=commit_and_carry,nothing_committed
//@ bound: one process_stream call: carry 3 bytes, reader 6 bytes, symbol lengths 5,20,1(,20); contents/range/code symbolic; abstract symbols
#[cfg_attr(kani, kani::proof)]
#[cfg_attr(kani, kani::stub(std::fmt::format, crate::verif_common::stub_format))]
#[cfg_attr(kani, kani::stub(std::io::Error::is_interrupted, crate::verif_common::stub_not_interrupted))]
#[cfg_attr(kani, kani::stub(crate::decode::lzma::DecoderState::process_next_inner, crate::decode::lzma::verif_h::abs_symbol))]
pub fn partial_p3_r6_l5_20_1() {
    partial_step::<3, 6, 5, 20, 1>()
}

//@ harness props=C05,C15,C11,C13 tier=quick unwind=22 unwindset=process_mode:7 mem_gb=4 timeout=600 native=no opt_covers=commit_and_carry,nothing_committed
//@ bound: one process_stream call: carry 19 bytes, reader 2 bytes, symbol lengths 20,3,1(,20); contents/range/code symbolic; abstract symbols
#[cfg_attr(kani, kani::proof)]
#[cfg_attr(kani, kani::stub(std::fmt::format, crate::verif_common::stub_format))]
#[cfg_attr(kani, kani::stub(std::io::Error::is_interrupted, crate::verif_common::stub_not_interrupted))]
#[cfg_attr(kani, kani::stub(crate::decode::lzma::DecoderState::process_next_inner, crate::decode::lzma::verif_h::abs_symbol))]
pub fn partial_p19_r2_l20_3_1() {
    partial_step::<19, 2, 20, 3, 1>()
}

//@ harness props=C05,C15,C11 tier=quick unwind=22 unwindset=process_mode:7 mem_gb=4 timeout=600 native=no opt_covers=commit_and_carry,nothing_committed
//@ bound: one process_stream call: carry 19 bytes, reader 1 bytes, symbol lengths 20,3,1(,20); contents/range/code symbolic; abstract symbols
#[cfg_attr(kani, kani::proof)]
#[cfg_attr(kani, kani::stub(std::fmt::format, crate::verif_common::stub_format))]
#[cfg_attr(kani, kani::stub(std::io::Error::is_interrupted, crate::verif_common::stub_not_interrupted))]
#[cfg_attr(kani, kani::stub(crate::decode::lzma::DecoderState::process_next_inner, crate::decode::lzma::verif_h::abs_symbol))]
pub fn partial_p19_r1_l20_3_1() {
    partial_step::<19, 1, 20, 3, 1>()
}

//@ harness props=C05,C15,C11 tier=quick unwind=22 unwindset=process_mode:7 mem_gb=4 timeout=600 native=no opt_covers=commit_and_carry,nothing_committed
//@ bound: one process_stream call: carry 19 bytes, reader 0 bytes, symbol lengths 20,3,1(,20); contents/range/code symbolic; abstract symbols
#[cfg_attr(kani, kani::proof)]
#[cfg_attr(kani, kani::stub(std::fmt::format, crate::verif_common::stub_format))]
#[cfg_attr(kani, kani::stub(std::io::Error::is_interrupted, crate::verif_common::stub_not_interrupted))]
#[cfg_attr(kani, kani::stub(crate::decode::lzma::DecoderState::process_next_inner, crate::decode::lzma::verif_h::abs_symbol))]
pub fn partial_p19_r0_l20_3_1() {
    partial_step::<19, 0, 20, 3, 1>()
}

//@ harness props=C05,C15,C11 tier=quick unwind=22 unwindset=process_mode:7 mem_gb=4 timeout=600 native=no opt_covers=commit_and_carry,nothing_committed
//@ bound: one process_stream call: carry 1 bytes, reader 8 bytes, symbol lengths 9,1,1(,20); contents/range/code symbolic; abstract symbols
#[cfg_attr(kani, kani::proof)]
#[cfg_attr(kani, kani::stub(std::fmt::format, crate::verif_common::stub_format))]
#[cfg_attr(kani, kani::stub(std::io::Error::is_interrupted, crate::verif_common::stub_not_interrupted))]
#[cfg_attr(kani, kani::stub(crate::decode::lzma::DecoderState::process_next_inner, crate::decode::lzma::verif_h::abs_symbol))]
pub fn partial_p1_r8_l9_1_1() {
    partial_step::<1, 8, 9, 1, 1>()
}

//@ harness props=C05,C15,C11 tier=quick unwind=22 unwindset=process_mode:7 mem_gb=4 timeout=600 native=no opt_covers=commit_and_carry,nothing_committed
//@ bound: one process_stream call: carry 1 bytes, reader 7 bytes, symbol lengths 9,1,1(,20); contents/range/code symbolic; abstract symbols
#[cfg_attr(kani, kani::proof)]
#[cfg_attr(kani, kani::stub(std::fmt::format, crate::verif_common::stub_format))]
#[cfg_attr(kani, kani::stub(std::io::Error::is_interrupted, crate::verif_common::stub_not_interrupted))]
#[cfg_attr(kani, kani::stub(crate::decode::lzma::DecoderState::process_next_inner, crate::decode::lzma::verif_h::abs_symbol))]
pub fn partial_p1_r7_l9_1_1() {
    partial_step::<1, 7, 9, 1, 1>()
}

//@ harness props=C05,C15,C11,C13 tier=quick unwind=22 unwindset=process_mode:7 mem_gb=4 timeout=600 native=no opt_covers=commit_and_carry,nothing_committed
//@ bound: one process_stream call: carry 0 bytes, reader 8 bytes, symbol lengths 20,1,1(,20); contents/range/code symbolic; abstract symbols
#[cfg_attr(kani, kani::proof)]
#[cfg_attr(kani, kani::stub(std::fmt::format, crate::verif_common::stub_format))]
#[cfg_attr(kani, kani::stub(std::io::Error::is_interrupted, crate::verif_common::stub_not_interrupted))]
#[cfg_attr(kani, kani::stub(crate::decode::lzma::DecoderState::process_next_inner, crate::decode::lzma::verif_h::abs_symbol))]
pub fn partial_p0_r8_l20_1_1() {
    partial_step::<0, 8, 20, 1, 1>()
}

//@ harness props=C05,C15,C11 tier=quick unwind=22 unwindset=process_mode:7 mem_gb=4 timeout=600 native=no opt_covers=commit_and_carry,nothing_committed
//@ bound: one process_stream call: carry 10 bytes, reader 8 bytes, symbol lengths 20,1,1(,20); contents/range/code symbolic; abstract symbols
#[cfg_attr(kani, kani::proof)]
#[cfg_attr(kani, kani::stub(std::fmt::format, crate::verif_common::stub_format))]
#[cfg_attr(kani, kani::stub(std::io::Error::is_interrupted, crate::verif_common::stub_not_interrupted))]
#[cfg_attr(kani, kani::stub(crate::decode::lzma::DecoderState::process_next_inner, crate::decode::lzma::verif_h::abs_symbol))]
pub fn partial_p10_r8_l20_1_1() {
    partial_step::<10, 8, 20, 1, 1>()
}

//@ harness props=C05,C15,C11 tier=quick unwind=22 unwindset=process_mode:7 mem_gb=4 timeout=600 native=no opt_covers=commit_and_carry,nothing_committed
//@ bound: one process_stream call: carry 12 bytes, reader 8 bytes, symbol lengths 20,1,1(,20); contents/range/code symbolic; abstract symbols
#[cfg_attr(kani, kani::proof)]
#[cfg_attr(kani, kani::stub(std::fmt::format, crate::verif_common::stub_format))]
#[cfg_attr(kani, kani::stub(std::io::Error::is_interrupted, crate::verif_common::stub_not_interrupted))]
#[cfg_attr(kani, kani::stub(crate::decode::lzma::DecoderState::process_next_inner, crate::decode::lzma::verif_h::abs_symbol))]
pub fn partial_p12_r8_l20_1_1() {
    partial_step::<12, 8, 20, 1, 1>()
}

//@ harness props=C05,C15,C11 tier=quick unwind=22 unwindset=process_mode:7 mem_gb=4 timeout=600 native=no opt_covers=commit_and_carry,nothing_committed
//@ bound: one process_stream call: carry 11 bytes, reader 8 bytes, symbol lengths 20,1,1(,20); contents/range/code symbolic; abstract symbols
#[cfg_attr(kani, kani::proof)]
#[cfg_attr(kani, kani::stub(std::fmt::format, crate::verif_common::stub_format))]
#[cfg_attr(kani, kani::stub(std::io::Error::is_interrupted, crate::verif_common::stub_not_interrupted))]
#[cfg_attr(kani, kani::stub(crate::decode::lzma::DecoderState::process_next_inner, crate::decode::lzma::verif_h::abs_symbol))]
pub fn partial_p11_r8_l20_1_1() {
    partial_step::<11, 8, 20, 1, 1>()
}

//@ harness props=C05,C15,C11 tier=quick unwind=22 unwindset=process_mode:7 mem_gb=4 timeout=600 native=no opt_covers=commit_and_carry,nothing_committed
//@ bound: one process_stream call: carry 0 bytes, reader 0 bytes, symbol lengths 1,1,1(,20); contents/range/code symbolic; abstract symbols
#[cfg_attr(kani, kani::proof)]
#[cfg_attr(kani, kani::stub(std::fmt::format, crate::verif_common::stub_format))]
#[cfg_attr(kani, kani::stub(std::io::Error::is_interrupted, crate::verif_common::stub_not_interrupted))]
#[cfg_attr(kani, kani::stub(crate::decode::lzma::DecoderState::process_next_inner, crate::decode::lzma::verif_h::abs_symbol))]
pub fn partial_p0_r0_l1_1_1() {
    partial_step::<0, 0, 1, 1, 1>()
}

//@ harness props=C05,C15,C11 tier=quick unwind=22 unwindset=process_mode:7 mem_gb=4 timeout=600 native=no opt_covers=commit_and_carry,nothing_committed
//@ bound: one process_stream call: carry 5 bytes, reader 0 bytes, symbol lengths 6,1,1(,20); contents/range/code symbolic; abstract symbols
#[cfg_attr(kani, kani::proof)]
#[cfg_attr(kani, kani::stub(std::fmt::format, crate::verif_common::stub_format))]
#[cfg_attr(kani, kani::stub(std::io::Error::is_interrupted, crate::verif_common::stub_not_interrupted))]
#[cfg_attr(kani, kani::stub(crate::decode::lzma::DecoderState::process_next_inner, crate::decode::lzma::verif_h::abs_symbol))]
pub fn partial_p5_r0_l6_1_1() {
    partial_step::<5, 0, 6, 1, 1>()
}

//@ harness props=C05,C15,C11,C13 tier=quick unwind=22 unwindset=process_mode:7 mem_gb=4 timeout=600 native=no opt_covers=commit_and_carry,nothing_committed
//@ bound: one process_stream call: carry 5 bytes, reader 0 bytes, symbol lengths 5,1,1(,20); contents/range/code symbolic; abstract symbols
#[cfg_attr(kani, kani::proof)]
#[cfg_attr(kani, kani::stub(std::fmt::format, crate::verif_common::stub_format))]
#[cfg_attr(kani, kani::stub(std::io::Error::is_interrupted, crate::verif_common::stub_not_interrupted))]
#[cfg_attr(kani, kani::stub(crate::decode::lzma::DecoderState::process_next_inner, crate::decode::lzma::verif_h::abs_symbol))]
pub fn partial_p5_r0_l5_1_1() {
    partial_step::<5, 0, 5, 1, 1>()
}

//@ harness props=C05,C15,C11 tier=quick unwind=22 unwindset=process_mode:7 mem_gb=4 timeout=600 native=no opt_covers=commit_and_carry,nothing_committed
//@ bound: one process_stream call: carry 2 bytes, reader 3 bytes, symbol lengths 1,1,1(,20); contents/range/code symbolic; abstract symbols
#[cfg_attr(kani, kani::proof)]
#[cfg_attr(kani, kani::stub(std::fmt::format, crate::verif_common::stub_format))]
#[cfg_attr(kani, kani::stub(std::io::Error::is_interrupted, crate::verif_common::stub_not_interrupted))]
#[cfg_attr(kani, kani::stub(crate::decode::lzma::DecoderState::process_next_inner, crate::decode::lzma::verif_h::abs_symbol))]
pub fn partial_p2_r3_l1_1_1() {
    partial_step::<2, 3, 1, 1, 1>()
}

//@ harness props=C05,C15,C11 tier=quick unwind=22 unwindset=process_mode:7 mem_gb=4 timeout=600 native=no opt_covers=commit_and_carry,nothing_committed
//@ bound: one process_stream call: carry 0 bytes, reader 1 bytes, symbol lengths 1,1,1(,20); contents/range/code symbolic; abstract symbols
#[cfg_attr(kani, kani::proof)]
#[cfg_attr(kani, kani::stub(std::fmt::format, crate::verif_common::stub_format))]
#[cfg_attr(kani, kani::stub(std::io::Error::is_interrupted, crate::verif_common::stub_not_interrupted))]
#[cfg_attr(kani, kani::stub(crate::decode::lzma::DecoderState::process_next_inner, crate::decode::lzma::verif_h::abs_symbol))]
pub fn partial_p0_r1_l1_1_1() {
    partial_step::<0, 1, 1, 1, 1>()
}

//@ harness props=C05,C15,C11 tier=quick unwind=22 unwindset=process_mode:7 mem_gb=4 timeout=600 native=no opt_covers=commit_and_carry,nothing_committed
//@ bound: one process_stream call: carry 0 bytes, reader 1 bytes, symbol lengths 2,1,1(,20); contents/range/code symbolic; abstract symbols
#[cfg_attr(kani, kani::proof)]
#[cfg_attr(kani, kani::stub(std::fmt::format, crate::verif_common::stub_format))]
#[cfg_attr(kani, kani::stub(std::io::Error::is_interrupted, crate::verif_common::stub_not_interrupted))]
#[cfg_attr(kani, kani::stub(crate::decode::lzma::DecoderState::process_next_inner, crate::decode::lzma::verif_h::abs_symbol))]
pub fn partial_p0_r1_l2_1_1() {
    partial_step::<0, 1, 2, 1, 1>()
}

//@ harness props=C05,C15,C11,C13 tier=quick unwind=22 unwindset=process_mode:7 mem_gb=4 timeout=600 native=no opt_covers=commit_and_carry,nothing_committed
//@ bound: one process_stream call: carry 19 bytes, reader 8 bytes, symbol lengths 20,7,1(,20); contents/range/code symbolic; abstract symbols
#[cfg_attr(kani, kani::proof)]
#[cfg_attr(kani, kani::stub(std::fmt::format, crate::verif_common::stub_format))]
#[cfg_attr(kani, kani::stub(std::io::Error::is_interrupted, crate::verif_common::stub_not_interrupted))]
#[cfg_attr(kani, kani::stub(crate::decode::lzma::DecoderState::process_next_inner, crate::decode::lzma::verif_h::abs_symbol))]
pub fn partial_p19_r8_l20_7_1() {
    partial_step::<19, 8, 20, 7, 1>()
}

//@ harness props=C05,C15,C11 tier=quick unwind=22 unwindset=process_mode:7 mem_gb=4 timeout=600 native=no opt_covers=commit_and_carry,nothing_committed
//@ bound: one process_stream call: carry 19 bytes, reader 8 bytes, symbol lengths 19,8,1(,20); contents/range/code symbolic; abstract symbols
#[cfg_attr(kani, kani::proof)]
#[cfg_attr(kani, kani::stub(std::fmt::format, crate::verif_common::stub_format))]
#[cfg_attr(kani, kani::stub(std::io::Error::is_interrupted, crate::verif_common::stub_not_interrupted))]
#[cfg_attr(kani, kani::stub(crate::decode::lzma::DecoderState::process_next_inner, crate::decode::lzma::verif_h::abs_symbol))]
pub fn partial_p19_r8_l19_8_1() {
    partial_step::<19, 8, 19, 8, 1>()
}

//@ harness props=C05,C15,C11 tier=quick unwind=22 unwindset=process_mode:7 mem_gb=4 timeout=600 native=no opt_covers=commit_and_carry,nothing_committed
//@ bound: one process_stream call: carry 18 bytes, reader 8 bytes, symbol lengths 20,6,2(,20); contents/range/code symbolic; abstract symbols
#[cfg_attr(kani, kani::proof)]
#[cfg_attr(kani, kani::stub(std::fmt::format, crate::verif_common::stub_format))]
#[cfg_attr(kani, kani::stub(std::io::Error::is_interrupted, crate::verif_common::stub_not_interrupted))]
#[cfg_attr(kani, kani::stub(crate::decode::lzma::DecoderState::process_next_inner, crate::decode::lzma::verif_h::abs_symbol))]
pub fn partial_p18_r8_l20_6_2() {
    partial_step::<18, 8, 20, 6, 2>()
}

//@ harness props=C05,C15,C11,C13 tier=quick unwind=22 unwindset=process_mode:7 mem_gb=4 timeout=600 native=no opt_covers=commit_and_carry,nothing_committed
//@ bound: one process_stream call: carry 7 bytes, reader 8 bytes, symbol lengths 2,19,1(,20); contents/range/code symbolic; abstract symbols
#[cfg_attr(kani, kani::proof)]
#[cfg_attr(kani, kani::stub(std::fmt::format, crate::verif_common::stub_format))]
#[cfg_attr(kani, kani::stub(std::io::Error::is_interrupted, crate::verif_common::stub_not_interrupted))]
#[cfg_attr(kani, kani::stub(crate::decode::lzma::DecoderState::process_next_inner, crate::decode::lzma::verif_h::abs_symbol))]
pub fn partial_p7_r8_l2_19_1() {
    partial_step::<7, 8, 2, 19, 1>()
}

//@ harness props=C05,C15,C11 tier=quick unwind=22 unwindset=process_mode:7 mem_gb=4 timeout=600 native=no opt_covers=commit_and_carry,nothing_committed
//@ bound: one process_stream call: carry 0 bytes, reader 8 bytes, symbol lengths 3,3,3(,20); contents/range/code symbolic; abstract symbols
#[cfg_attr(kani, kani::proof)]
#[cfg_attr(kani, kani::stub(std::fmt::format, crate::verif_common::stub_format))]
#[cfg_attr(kani, kani::stub(std::io::Error::is_interrupted, crate::verif_common::stub_not_interrupted))]
#[cfg_attr(kani, kani::stub(crate::decode::lzma::DecoderState::process_next_inner, crate::decode::lzma::verif_h::abs_symbol))]
pub fn partial_p0_r8_l3_3_3() {
    partial_step::<0, 8, 3, 3, 3>()
}

// ---------------------------------------------------------------------------------------
// C01-H1 / C08-H1: LzmaParams::read_header on arbitrary bytes, all three size options
// ---------------------------------------------------------------------------------------
fn header_any<const OPT: usize, const AVAIL: usize>() {
    let mut t = Tape::<32>::new();
    let f: [u8; 14] = t.bytes::<14>();
    let provided_some = t.bool();
    let provided_val = t.u64();
    let provided = if provided_some { Some(provided_val) } else { None };
    let opts = Options {
        unpacked_size: match OPT {
            0 => UnpackedSize::ReadFromHeader,
            1 => UnpackedSize::ReadHeaderButUseProvided(provided),
            _ => UnpackedSize::UseProvided(provided),
        },
        memlimit: None,
        allow_incomplete: false,
    };
    let mut rd = ArrReader::<14>::new(f, AVAIL);
    let r = LzmaParams::read_header(&mut rd, &opts);
    let need = if OPT == 2 { 5 } else { 13 };
    let props = f[0] as u32;
    match &r {
        Ok(p) => {
            vassert!(AVAIL >= need, "header: Ok needs the whole header");
            vassert!(props < 225, "header: Ok implies properties byte < 225");
            vassert!(p.properties.lc == props % 9 && p.properties.lp == (props / 9) % 5 && p.properties.pb == props / 45, "header: lc/lp/pb decoding");
            vassert!(p.properties.lc <= 8 && p.properties.lp <= 4 && p.properties.pb <= 4, "header: lc/lp/pb in range");
            let dict = u32::from_le_bytes([f[1], f[2], f[3], f[4]]);
            vassert!(p.dict_size == if dict < 0x1000 { 0x1000 } else { dict }, "header: dictionary size below 4096 behaves as 4096");
            let hs = u64::from_le_bytes([f[5], f[6], f[7], f[8], f[9], f[10], f[11], f[12]]);
            match OPT {
                0 => {
                    vassert!(p.unpacked_size == if hs == u64::MAX { None } else { Some(hs) }, "header: size field, all-ones means end marker");
                }
                _ => {
                    vassert!(p.unpacked_size == provided, "header: a caller-supplied size overrides the header field");
                }
            }
            vassert!(rd.pos == need, "header: consumes 13, 13 and 5 bytes for the three options");
            vcover!(props == 224, "max_props");
            vcover!(dict < 0x1000, "small_dict_clamped");
        }
        Err(e) => {
            let too_short = match e {
                error::Error::HeaderTooShort(_) => true,
                _ => false,
            };
            if AVAIL >= need {
                vassert!(props >= 225, "header: a complete header with props < 225 parses");
                vassert!(!too_short, "header: invalid properties are not reported as a short header");
            } else if props < 225 || AVAIL == 0 {
                vassert!(too_short, "header: a truncated header is reported as HeaderTooShort");
            }
            vcover!(true, "header_err");
        }
    }
    forget(r);
}

//@ harness props=C01,C08,C07,C09,C10,C16 tier=quick unwind=16 unwindset=default_read_exact:4 mem_gb=3 timeout=300
//@ bound: read_header(ReadFromHeader) on 14 symbolic bytes, all available
#[cfg_attr(kani, kani::proof)]
#[cfg_attr(kani, kani::stub(std::fmt::format, crate::verif_common::stub_format))]
#[cfg_attr(kani, kani::stub(std::io::Error::is_interrupted, crate::verif_common::stub_not_interrupted))]
pub fn header_from_header_full() {
    header_any::<0, 14>()
}

//@ harness props=C08,C07,C09,C16 tier=quick unwind=16 unwindset=default_read_exact:4 mem_gb=3 timeout=300
//@ bound: read_header(ReadHeaderButUseProvided(any)) on 14 symbolic bytes
#[cfg_attr(kani, kani::proof)]
#[cfg_attr(kani, kani::stub(std::fmt::format, crate::verif_common::stub_format))]
#[cfg_attr(kani, kani::stub(std::io::Error::is_interrupted, crate::verif_common::stub_not_interrupted))]
pub fn header_use_provided_13() {
    header_any::<1, 14>()
}

//@ harness props=C08,C07,C09,C16 tier=quick unwind=16 unwindset=default_read_exact:4 mem_gb=3 timeout=300
//@ bound: read_header(UseProvided(any)) on 14 symbolic bytes (5-byte header)
#[cfg_attr(kani, kani::proof)]
#[cfg_attr(kani, kani::stub(std::fmt::format, crate::verif_common::stub_format))]
#[cfg_attr(kani, kani::stub(std::io::Error::is_interrupted, crate::verif_common::stub_not_interrupted))]
pub fn header_use_provided_5() {
    header_any::<2, 14>()
}

//@ harness props=C08,C07,C05 tier=quick unwind=16 unwindset=default_read_exact:4 mem_gb=3 timeout=300 opt_covers=max_props,small_dict_clamped
//@ bound: read_header(ReadFromHeader) with only 12 of 13 bytes available
#[cfg_attr(kani, kani::proof)]
#[cfg_attr(kani, kani::stub(std::fmt::format, crate::verif_common::stub_format))]
#[cfg_attr(kani, kani::stub(std::io::Error::is_interrupted, crate::verif_common::stub_not_interrupted))]
pub fn header_truncated_12() {
    header_any::<0, 12>()
}

//@ harness props=C08,C07,C05 tier=quick unwind=16 unwindset=default_read_exact:4 mem_gb=3 timeout=300 opt_covers=max_props,small_dict_clamped
//@ bound: read_header(UseProvided) with only 3 of 5 bytes available
#[cfg_attr(kani, kani::proof)]
#[cfg_attr(kani, kani::stub(std::fmt::format, crate::verif_common::stub_format))]
#[cfg_attr(kani, kani::stub(std::io::Error::is_interrupted, crate::verif_common::stub_not_interrupted))]
pub fn header_truncated_3() {
    header_any::<2, 3>()
}


//@ harness props=C08,C07,C05,C13,C15 tier=quick unwind=16 unwindset=default_read_exact:4 mem_gb=3 timeout=300 opt_covers=max_props,small_dict_clamped
//@ bound: read_header(ReadHeaderButUseProvided(any)) with only 7 of 13 bytes available (cut inside the size field): reported as HeaderTooShort (what the streaming decoder waits on)
#[cfg_attr(kani, kani::proof)]
#[cfg_attr(kani, kani::stub(std::fmt::format, crate::verif_common::stub_format))]
#[cfg_attr(kani, kani::stub(std::io::Error::is_interrupted, crate::verif_common::stub_not_interrupted))]
pub fn header_truncated_use_provided_7() {
    header_any::<1, 7>()
}

//@ harness props=C08,C07,C05,C13,C15 tier=quick unwind=16 unwindset=default_read_exact:4 mem_gb=3 timeout=300 opt_covers=max_props,small_dict_clamped
//@ bound: read_header(ReadHeaderButUseProvided(any)) with only 12 of 13 bytes available: reported as HeaderTooShort (what the streaming decoder waits on)
#[cfg_attr(kani, kani::proof)]
#[cfg_attr(kani, kani::stub(std::fmt::format, crate::verif_common::stub_format))]
#[cfg_attr(kani, kani::stub(std::io::Error::is_interrupted, crate::verif_common::stub_not_interrupted))]
pub fn header_truncated_use_provided_12() {
    header_any::<1, 12>()
}

//@ harness props=C08,C07,C05,C13 tier=quick unwind=16 unwindset=default_read_exact:4 mem_gb=3 timeout=300 opt_covers=max_props,small_dict_clamped
//@ bound: read_header(ReadHeaderButUseProvided(any)) with only 3 of 13 bytes available (cut inside the dictionary size): reported as HeaderTooShort (what the streaming decoder waits on)
#[cfg_attr(kani, kani::proof)]
#[cfg_attr(kani, kani::stub(std::fmt::format, crate::verif_common::stub_format))]
#[cfg_attr(kani, kani::stub(std::io::Error::is_interrupted, crate::verif_common::stub_not_interrupted))]
pub fn header_truncated_use_provided_3() {
    header_any::<1, 3>()
}

//@ harness props=C08,C07,C05,C13,C15 tier=quick unwind=16 unwindset=default_read_exact:4 mem_gb=3 timeout=300 opt_covers=max_props,small_dict_clamped
//@ bound: read_header(ReadFromHeader) with only 6 of 13 bytes available: reported as HeaderTooShort (what the streaming decoder waits on)
#[cfg_attr(kani, kani::proof)]
#[cfg_attr(kani, kani::stub(std::fmt::format, crate::verif_common::stub_format))]
#[cfg_attr(kani, kani::stub(std::io::Error::is_interrupted, crate::verif_common::stub_not_interrupted))]
pub fn header_truncated_6() {
    header_any::<0, 6>()
}

//@ harness props=C08,C07,C05,C13 tier=quick unwind=16 unwindset=default_read_exact:4 mem_gb=3 timeout=300 opt_covers=max_props,small_dict_clamped
//@ bound: read_header(ReadFromHeader) with only 2 of 13 bytes available: reported as HeaderTooShort (what the streaming decoder waits on)
#[cfg_attr(kani, kani::proof)]
#[cfg_attr(kani, kani::stub(std::fmt::format, crate::verif_common::stub_format))]
#[cfg_attr(kani, kani::stub(std::io::Error::is_interrupted, crate::verif_common::stub_not_interrupted))]
pub fn header_truncated_2() {
    header_any::<0, 2>()
}


// ---------------------------------------------------------------------------------------
// C08-H2: exit rules of process_mode(Finish) (the one-shot path and Stream::finish)
//   script of NS <= 4 abstract symbols with concrete kinds/lengths, T trailing bytes,
//   unpacked_size = None or Some(symbolic), coder code symbolic.
// ---------------------------------------------------------------------------------------
fn finish_rules<const NS: usize, const K0: usize, const K1: usize, const K2: usize, const K3: usize, const L: usize, const T: usize, const SIZED: bool>() {
    let mut t = Tape::<64>::new();
    let q: [u8; 24] = t.bytes::<24>();
    let code = t.u32();
    let s = t.u64();
    let base = (t.u16() as usize) & 0xFF;
    let kinds = [K0, K1, K2, K3];
    let total = NS * L + T;
    let size = if SIZED { Some(s) } else { None };
    let mut d = light_state::<0>(LzmaProperties { lc: 0, lp: 0, pb: 0 }, size);
    d.state = 0;
    // entries beyond NS are never complete (length 20 > any leftover here) -> "input exhausted"
    let mut sc = [script(20, K_LIT); 4];
    let mut i = 0;
    while i < NS {
        sc[i] = script(L, kinds[i]);
        i += 1;
    }
    d.rep = sc;
    let mut rd = ArrReader::<24>::new(q, total);
    let mut win = SeqWindow::<12>::new(base);
    let (res_ok, r_code) = {
        let mut rc = RangeDecoder::from_parts(&mut rd, 0xFFFF_FFFF, code);
        let r = d.process(&mut win, &mut rc);
        let ok = r.is_ok();
        forget(r);
        (ok, rc.code)
    };
    // ---- reference model of the rules in the property statement
    let mut produced: u64 = base as u64;
    let mut pos = 0usize;
    let mut c = code;
    let mut rg: u32 = 0xFFFF_FFFF;
    let mut verdict: u8 = 0; // 0 running, 1 ok, 2 err
    let mut marker_seen = false;
    let mut nosize_eof_exit = false;
    let mut j = 0;
    while j <= NS {
        if verdict == 0 {
            let reached = match size {
                Some(n) => produced >= n,
                None => false,
            };
            if reached {
                verdict = if produced == size.unwrap_or(0) { 1 } else { 2 };
            } else if size.is_none() && c == 0 && pos == total {
                // the loop-head exit of the implementation: input ends on a symbol boundary with
                // code == 0 although no end marker was decoded (finding D4 when no marker seen)
                verdict = 1;
                nosize_eof_exit = true;
            } else if j == NS {
                verdict = 2; // input exhausted before the size / the marker was reached
            } else {
                let f = q[pos];
                let l = q[pos + L - 1];
                let (a, b) = abs_fold(rg, c, f, l);
                rg = a;
                c = b;
                pos += L;
                if kinds[j] == K_BAD {
                    verdict = 2;
                } else if kinds[j] == K_MARKER {
                    marker_seen = true;
                    // marker: fine only if the coder is clean and nothing follows
                    if c == 0 && pos == total {
                        verdict = match size {
                            Some(n) => {
                                if produced == n {
                                    1
                                } else {
                                    2
                                }
                            }
                            None => 1,
                        };
                    } else {
                        verdict = 2;
                    }
                } else {
                    produced += if kinds[j] == K_WIDE { 3 } else { 1 };
                }
            }
        }
        j += 1;
    }
    if verdict == 0 {
        verdict = 2;
    }
    let known_d4 = verdict == 1 && nosize_eof_exit && !marker_seen;
    vcover!(known_d4 && res_ok, "KF:C08:nosize-eof-code0-without-marker");
    if !known_d4 {
        vassert!(res_ok == (verdict == 1), "finish: verdict follows the size / end-marker rules");
    }
    if res_ok {
        match size {
            Some(n) => {
                vassert!(win.len() as u64 == n, "finish: success with a size in effect means exactly that many bytes");
            }
            None => {
                vassert!(marker_seen || known_d4, "finish: without a size, success means the end marker was decoded");
                vassert!(rd.pos == total, "finish: without a size, nothing may follow the end marker");
            }
        }
        vassert!(rd.pos == pos, "finish: consumes exactly the symbols it decoded, nothing after them");
        vassert!(r_code == c, "finish: coder state advanced by the decoded symbols");
    }
    vcover!(res_ok, "finish_ok");
    vcover!(!res_ok, "finish_err");
    vcover!(true, "end_reached");
    forget(d);
}

//@ harness props=C08,C11,C07,C17,C02 tier=quick unwind=8 unwindset=process_mode:7 mem_gb=4 timeout=600 native=no opt_covers=KF:C08:nosize-eof-code0-without-marker
//@ bound: process(Finish): 4 abstract symbols kinds [0,0,0,0] (0 lit,1 marker,2 corrupt,3 three-byte) of 3 bytes, 0 trailing bytes, size Some(symbolic), symbolic code / initial length
#[cfg_attr(kani, kani::proof)]
#[cfg_attr(kani, kani::stub(std::fmt::format, crate::verif_common::stub_format))]
#[cfg_attr(kani, kani::stub(std::io::Error::is_interrupted, crate::verif_common::stub_not_interrupted))]
#[cfg_attr(kani, kani::stub(crate::decode::lzma::DecoderState::process_next_inner, crate::decode::lzma::verif_h::abs_symbol))]
pub fn finish_sized_lit4_t0() {
    finish_rules::<4, 0, 0, 0, 0, 3, 0, true>()
}

//@ harness props=C08,C11,C07 tier=quick unwind=8 unwindset=process_mode:7 mem_gb=4 timeout=600 native=no opt_covers=KF:C08:nosize-eof-code0-without-marker
//@ bound: process(Finish): 3 abstract symbols kinds [0,0,0,0] (0 lit,1 marker,2 corrupt,3 three-byte) of 3 bytes, 4 trailing bytes, size Some(symbolic), symbolic code / initial length
#[cfg_attr(kani, kani::proof)]
#[cfg_attr(kani, kani::stub(std::fmt::format, crate::verif_common::stub_format))]
#[cfg_attr(kani, kani::stub(std::io::Error::is_interrupted, crate::verif_common::stub_not_interrupted))]
#[cfg_attr(kani, kani::stub(crate::decode::lzma::DecoderState::process_next_inner, crate::decode::lzma::verif_h::abs_symbol))]
pub fn finish_sized_lit3_t4() {
    finish_rules::<3, 0, 0, 0, 0, 3, 4, true>()
}

//@ harness props=C08,C11,C07,C17,C02 tier=quick unwind=8 unwindset=process_mode:7 mem_gb=4 timeout=600 native=no opt_covers=KF:C08:nosize-eof-code0-without-marker
//@ bound: process(Finish): 3 abstract symbols kinds [0,0,1,0] (0 lit,1 marker,2 corrupt,3 three-byte) of 2 bytes, 0 trailing bytes, size Some(symbolic), symbolic code / initial length
#[cfg_attr(kani, kani::proof)]
#[cfg_attr(kani, kani::stub(std::fmt::format, crate::verif_common::stub_format))]
#[cfg_attr(kani, kani::stub(std::io::Error::is_interrupted, crate::verif_common::stub_not_interrupted))]
#[cfg_attr(kani, kani::stub(crate::decode::lzma::DecoderState::process_next_inner, crate::decode::lzma::verif_h::abs_symbol))]
pub fn finish_sized_lit2_marker_t0() {
    finish_rules::<3, 0, 0, 1, 0, 2, 0, true>()
}

//@ harness props=C08,C11,C07,C17,C02 tier=quick unwind=8 unwindset=process_mode:7 mem_gb=4 timeout=600 native=no opt_covers=KF:C08:nosize-eof-code0-without-marker
//@ bound: process(Finish): 3 abstract symbols kinds [0,3,0,0] (0 lit,1 marker,2 corrupt,3 three-byte) of 2 bytes, 0 trailing bytes, size Some(symbolic), symbolic code / initial length
#[cfg_attr(kani, kani::proof)]
#[cfg_attr(kani, kani::stub(std::fmt::format, crate::verif_common::stub_format))]
#[cfg_attr(kani, kani::stub(std::io::Error::is_interrupted, crate::verif_common::stub_not_interrupted))]
#[cfg_attr(kani, kani::stub(crate::decode::lzma::DecoderState::process_next_inner, crate::decode::lzma::verif_h::abs_symbol))]
pub fn finish_sized_wide_overshoot() {
    finish_rules::<3, 0, 3, 0, 0, 2, 0, true>()
}

//@ harness props=C08,C11,C07,C17,C02 tier=quick unwind=8 unwindset=process_mode:7 mem_gb=4 timeout=600 native=no opt_covers=KF:C08:nosize-eof-code0-without-marker
//@ bound: process(Finish): 3 abstract symbols kinds [0,2,0,0] (0 lit,1 marker,2 corrupt,3 three-byte) of 2 bytes, 0 trailing bytes, size Some(symbolic), symbolic code / initial length
#[cfg_attr(kani, kani::proof)]
#[cfg_attr(kani, kani::stub(std::fmt::format, crate::verif_common::stub_format))]
#[cfg_attr(kani, kani::stub(std::io::Error::is_interrupted, crate::verif_common::stub_not_interrupted))]
#[cfg_attr(kani, kani::stub(crate::decode::lzma::DecoderState::process_next_inner, crate::decode::lzma::verif_h::abs_symbol))]
pub fn finish_sized_bad_symbol() {
    finish_rules::<3, 0, 2, 0, 0, 2, 0, true>()
}

//@ harness props=C08,C11,C07 tier=quick unwind=8 unwindset=process_mode:7 mem_gb=4 timeout=600 native=no opt_covers=KF:C08:nosize-eof-code0-without-marker
//@ bound: process(Finish): 3 abstract symbols kinds [0,0,1,0] (0 lit,1 marker,2 corrupt,3 three-byte) of 3 bytes, 0 trailing bytes, size None, symbolic code / initial length
#[cfg_attr(kani, kani::proof)]
#[cfg_attr(kani, kani::stub(std::fmt::format, crate::verif_common::stub_format))]
#[cfg_attr(kani, kani::stub(std::io::Error::is_interrupted, crate::verif_common::stub_not_interrupted))]
#[cfg_attr(kani, kani::stub(crate::decode::lzma::DecoderState::process_next_inner, crate::decode::lzma::verif_h::abs_symbol))]
pub fn finish_nosize_lit2_marker_t0() {
    finish_rules::<3, 0, 0, 1, 0, 3, 0, false>()
}

//@ harness props=C08,C11,C07 tier=quick unwind=8 unwindset=process_mode:7 mem_gb=4 timeout=600 native=no opt_covers=finish_ok,KF:C08:nosize-eof-code0-without-marker
//@ bound: process(Finish): 3 abstract symbols kinds [0,0,1,0] (0 lit,1 marker,2 corrupt,3 three-byte) of 3 bytes, 1 trailing bytes, size None, symbolic code / initial length
#[cfg_attr(kani, kani::proof)]
#[cfg_attr(kani, kani::stub(std::fmt::format, crate::verif_common::stub_format))]
#[cfg_attr(kani, kani::stub(std::io::Error::is_interrupted, crate::verif_common::stub_not_interrupted))]
#[cfg_attr(kani, kani::stub(crate::decode::lzma::DecoderState::process_next_inner, crate::decode::lzma::verif_h::abs_symbol))]
pub fn finish_nosize_lit2_marker_t1() {
    finish_rules::<3, 0, 0, 1, 0, 3, 1, false>()
}

//@ harness props=C08,C11,C07 tier=quick unwind=8 unwindset=process_mode:7 mem_gb=4 timeout=600 native=no opt_covers=KF:C08:nosize-eof-code0-without-marker
//@ bound: process(Finish): 1 abstract symbols kinds [1,0,0,0] (0 lit,1 marker,2 corrupt,3 three-byte) of 5 bytes, 0 trailing bytes, size None, symbolic code / initial length
#[cfg_attr(kani, kani::proof)]
#[cfg_attr(kani, kani::stub(std::fmt::format, crate::verif_common::stub_format))]
#[cfg_attr(kani, kani::stub(std::io::Error::is_interrupted, crate::verif_common::stub_not_interrupted))]
#[cfg_attr(kani, kani::stub(crate::decode::lzma::DecoderState::process_next_inner, crate::decode::lzma::verif_h::abs_symbol))]
pub fn finish_nosize_marker_first() {
    finish_rules::<1, 1, 0, 0, 0, 5, 0, false>()
}

//@ harness props=C08,C11,C07 tier=quick unwind=8 unwindset=process_mode:7 mem_gb=4 timeout=600 native=no
//@ bound: process(Finish): 3 abstract symbols kinds [0,0,0,0] (0 lit,1 marker,2 corrupt,3 three-byte) of 2 bytes, 0 trailing bytes, size None, symbolic code / initial length
#[cfg_attr(kani, kani::proof)]
#[cfg_attr(kani, kani::stub(std::fmt::format, crate::verif_common::stub_format))]
#[cfg_attr(kani, kani::stub(std::io::Error::is_interrupted, crate::verif_common::stub_not_interrupted))]
#[cfg_attr(kani, kani::stub(crate::decode::lzma::DecoderState::process_next_inner, crate::decode::lzma::verif_h::abs_symbol))]
pub fn finish_nosize_lit3_nomarker() {
    finish_rules::<3, 0, 0, 0, 0, 2, 0, false>()
}

//@ harness props=C08,C11,C07 tier=quick unwind=8 unwindset=process_mode:7 mem_gb=4 timeout=600 native=no opt_covers=finish_err
//@ bound: process(Finish): 0 abstract symbols kinds [0,0,0,0] (0 lit,1 marker,2 corrupt,3 three-byte) of 1 bytes, 0 trailing bytes, size None, symbolic code / initial length
#[cfg_attr(kani, kani::proof)]
#[cfg_attr(kani, kani::stub(std::fmt::format, crate::verif_common::stub_format))]
#[cfg_attr(kani, kani::stub(std::io::Error::is_interrupted, crate::verif_common::stub_not_interrupted))]
#[cfg_attr(kani, kani::stub(crate::decode::lzma::DecoderState::process_next_inner, crate::decode::lzma::verif_h::abs_symbol))]
pub fn finish_nosize_empty() {
    finish_rules::<0, 0, 0, 0, 0, 1, 0, false>()
}

//@ harness props=C08,C11,C07 tier=quick unwind=8 unwindset=process_mode:7 mem_gb=4 timeout=600 native=no opt_covers=KF:C08:nosize-eof-code0-without-marker
//@ bound: process(Finish): 0 abstract symbols kinds [0,0,0,0] (0 lit,1 marker,2 corrupt,3 three-byte) of 1 bytes, 0 trailing bytes, size Some(symbolic), symbolic code / initial length
#[cfg_attr(kani, kani::proof)]
#[cfg_attr(kani, kani::stub(std::fmt::format, crate::verif_common::stub_format))]
#[cfg_attr(kani, kani::stub(std::io::Error::is_interrupted, crate::verif_common::stub_not_interrupted))]
#[cfg_attr(kani, kani::stub(crate::decode::lzma::DecoderState::process_next_inner, crate::decode::lzma::verif_h::abs_symbol))]
pub fn finish_sized_empty() {
    finish_rules::<0, 0, 0, 0, 0, 1, 0, true>()
}

// ----- helpers for the LZMA2 harnesses (fields of DecoderState are private to this module) -----
pub fn set_script(d: &mut DecoderState, sc: [usize; 4]) {
    d.rep = sc;
    d.state = 0;
}
/// reset_state observer: counts calls in is_rep_g2[11] (untouched by abstract symbols)
pub fn note_reset(d: &mut DecoderState) {
    d.is_rep_g2[11] = d.is_rep_g2[11].wrapping_add(1);
}
pub fn reset_count(d: &DecoderState) -> usize {
    (d.is_rep_g2[11].wrapping_sub(0x400)) as usize
}
pub fn unpacked_size_of(d: &DecoderState) -> Option<u64> {
    d.unpacked_size
}

// ---------------------------------------------------------------------------------------
// C14: reset_state(p) leaves the state DecoderState::new(p) would create
// ---------------------------------------------------------------------------------------
fn any_cell_value(d: &DecoderState, table: u8, idx: usize) -> u16 {
    // value of the cell with logical name (table, idx); idx assumed in range
    match table {
        T_IS_MATCH => d.is_match[idx],
        T_IS_REP => d.is_rep[idx],
        T_IS_REP_G0 => d.is_rep_g0[idx],
        T_IS_REP_G1 => d.is_rep_g1[idx],
        T_IS_REP_G2 => d.is_rep_g2[idx],
        T_IS_REP0_LONG => d.is_rep_0long[idx],
        T_LIT => vec2d_cell(&d.literal_probs, idx),
        T_LEN_CHOICE => crate::decode::rangecoder::verif_h::len_cell(if idx == 0 { &d.len_decoder } else { &d.rep_len_decoder }, 0, 0, 0),
        T_LEN_CHOICE2 => crate::decode::rangecoder::verif_h::len_cell(if idx == 0 { &d.len_decoder } else { &d.rep_len_decoder }, 1, 0, 0),
        T_LEN_LOW => crate::decode::rangecoder::verif_h::len_cell(if idx / 128 == 0 { &d.len_decoder } else { &d.rep_len_decoder }, 2, (idx % 128) / 8, idx % 8),
        T_LEN_MID => crate::decode::rangecoder::verif_h::len_cell(if idx / 128 == 0 { &d.len_decoder } else { &d.rep_len_decoder }, 3, (idx % 128) / 8, idx % 8),
        T_LEN_HIGH => crate::decode::rangecoder::verif_h::len_cell(if idx / 256 == 0 { &d.len_decoder } else { &d.rep_len_decoder }, 4, 0, idx % 256),
        T_POS_SLOT => crate::decode::rangecoder::verif_h::bt_get(&d.pos_slot_decoder[idx / 64], idx % 64),
        T_POS_DEC => d.pos_decoders[idx],
        _ => crate::decode::rangecoder::verif_h::bt_get(&d.align_decoder, idx % 16),
    }
}

fn set_cell_value(d: &mut DecoderState, table: u8, idx: usize, v: u16) {
    match table {
        T_IS_MATCH => d.is_match[idx] = v,
        T_IS_REP => d.is_rep[idx] = v,
        T_IS_REP_G0 => d.is_rep_g0[idx] = v,
        T_IS_REP_G1 => d.is_rep_g1[idx] = v,
        T_IS_REP_G2 => d.is_rep_g2[idx] = v,
        T_IS_REP0_LONG => d.is_rep_0long[idx] = v,
        T_LIT => vec2d_set(&mut d.literal_probs, idx, v),
        T_LEN_CHOICE => crate::decode::rangecoder::verif_h::len_cell_set(if idx == 0 { &mut d.len_decoder } else { &mut d.rep_len_decoder }, 0, 0, 0, v),
        T_LEN_CHOICE2 => crate::decode::rangecoder::verif_h::len_cell_set(if idx == 0 { &mut d.len_decoder } else { &mut d.rep_len_decoder }, 1, 0, 0, v),
        T_LEN_LOW => crate::decode::rangecoder::verif_h::len_cell_set(if idx / 128 == 0 { &mut d.len_decoder } else { &mut d.rep_len_decoder }, 2, (idx % 128) / 8, idx % 8, v),
        T_LEN_MID => crate::decode::rangecoder::verif_h::len_cell_set(if idx / 128 == 0 { &mut d.len_decoder } else { &mut d.rep_len_decoder }, 3, (idx % 128) / 8, idx % 8, v),
        T_LEN_HIGH => crate::decode::rangecoder::verif_h::len_cell_set(if idx / 256 == 0 { &mut d.len_decoder } else { &mut d.rep_len_decoder }, 4, 0, idx % 256, v),
        T_POS_SLOT => crate::decode::rangecoder::verif_h::bt_set(&mut d.pos_slot_decoder[idx / 64], idx % 64, v),
        T_POS_DEC => d.pos_decoders[idx] = v,
        _ => crate::decode::rangecoder::verif_h::bt_set(&mut d.align_decoder, idx % 16, v),
    }
}

/// number of cells of each logical table (literal table passed separately)
fn table_len(table: u8, lit_cells: usize) -> usize {
    match table {
        T_IS_MATCH | T_IS_REP0_LONG => 192,
        T_IS_REP | T_IS_REP_G0 | T_IS_REP_G1 | T_IS_REP_G2 => 12,
        T_LIT => lit_cells,
        T_LEN_CHOICE | T_LEN_CHOICE2 => 2,
        T_LEN_LOW | T_LEN_MID => 256,
        T_LEN_HIGH => 512,
        T_POS_SLOT => 256,
        T_POS_DEC => 115,
        _ => 16,
    }
}

/// MODE 0: DecoderState::new(p, size) ; MODE 1: dirty state (A = old lc+lp) then reset_state(p)
/// with p.lc + p.lp == B. One universally quantified cell of one universally quantified table
/// is made dirty before and inspected after.
fn reset_equiv<const MODE: usize, const A: usize, const LC: u32, const LP: u32, const CELLS_A: usize, const FILL_OBSERVED: bool>() {
    let mut t = Tape::<64>::new();
    // lc and lp are concrete per instance (a symbolic lc+lp makes the table length, hence the
    // fill loop's trip count, symbolic for the symbolic-execution engine); pb is symbolic
    let lc = LC;
    let lp = LP;
    let pb = (t.u8() as u32) % 5;
    let size_some = t.bool();
    let size_v = t.u64();
    let size = if size_some { Some(size_v) } else { None };
    let table = 1 + t.u8() % 15;
    let idx = t.usize();
    let dirty = t.u16();
    let table2 = 1 + t.u8() % 15;
    let idx2 = t.usize();
    let p = LzmaProperties { lc, lp, pb };
    let cells_b = 0x300usize << (LC + LP);
    let d = if MODE == 0 {
        DecoderState::new(p, size)
    } else {
        let old = LzmaProperties { lc: A as u32, lp: 0, pb: (t.u8() as u32) % 5 };
        let mut d = light_state::<CELLS_A>(old, size);
        // the whole literal table is dirty (0x0123 everywhere: an array-repeat
        // expression, no loop); of the other tables one quantified cell is dirty
        d.literal_probs = mk_vec2d(Box::new([0x0123u16; CELLS_A]) as Box<[u16]>, 0x300);
        assume(table != T_LIT);
        assume(idx < table_len(table, CELLS_A));
        set_cell_value(&mut d, table, idx, dirty);
        d.state = (t.u8() % 12) as usize;
        d.rep = [t.u32() as usize, t.u32() as usize, t.u32() as usize, t.u32() as usize];
        d.partial_input_buf.set_position(0);
        d.reset_state(p);
        d
    };
    vassert!(d.state == 0, "reset/new: state 0");
    vassert!(d.rep[0] == 0 && d.rep[1] == 0 && d.rep[2] == 0 && d.rep[3] == 0, "reset/new: reps 0");
    vassert!(d.lzma_props.lc == lc && d.lzma_props.lp == lp && d.lzma_props.pb == pb, "reset/new: properties installed");
    vassert!(d.unpacked_size == size, "reset/new: unpacked size as given (kept by reset_state)");
    vassert!(vec2d_len(&d.literal_probs) == cells_b && vec2d_cols(&d.literal_probs) == 0x300, "reset/new: literal table has 0x300 << (lc+lp) cells");
    vassert!(d.partial_input_buf.position() == 0, "reset/new: no carried-over input");
    if FILL_OBSERVED {
        // Vec2D::fill is replaced by an observer (first and last cell carry the fill value)
        vassert!(vec2d_cell(&d.literal_probs, 0) == 0x400 && vec2d_cell(&d.literal_probs, cells_b - 1) == 0x400, "reset: the kept literal table is refilled with 0x400");
        if table2 != T_LIT && idx2 < table_len(table2, cells_b) {
            vassert!(any_cell_value(&d, table2, idx2) == 0x400, "reset/new: every probability cell is 0x400");
        }
    } else if idx2 < table_len(table2, cells_b) {
        vassert!(any_cell_value(&d, table2, idx2) == 0x400, "reset/new: every probability cell is 0x400");
    }
    vcover!(table2 == T_LIT && idx2 == cells_b - 1, "last_literal_cell");
    vcover!(table2 == T_LEN_HIGH && idx2 == 511, "rep_len_high_last");
    vcover!(true, "end_reached");
    forget(d);
}

//@ harness props=C14,C01,C02,C08 tier=quick unwind=1540 mem_gb=10 timeout=1500
//@ bound: DecoderState::new(p, size) for every p with lc+lp = 0 (any pb): every cell of every table inspected at a universally quantified index
#[cfg_attr(kani, kani::proof)]
#[cfg_attr(kani, kani::stub(std::fmt::format, crate::verif_common::stub_format))]
#[cfg_attr(kani, kani::stub(std::io::Error::is_interrupted, crate::verif_common::stub_not_interrupted))]
pub fn new_state_lclp0() {
    reset_equiv::<0, 0, 0, 0, 0, false>()
}

//@ harness props=C14,C02 tier=quick unwind=8 unwindset=spec_fill:770,extend_with:770 mem_gb=10 timeout=1500
//@ bound: reset_state(p) with lc+lp = 0 on a dirty lc+lp = 0 state (fill branch): any dirty cell, any state/rep, every cell inspected at a quantified index
#[cfg_attr(kani, kani::proof)]
#[cfg_attr(kani, kani::stub(std::fmt::format, crate::verif_common::stub_format))]
#[cfg_attr(kani, kani::stub(std::io::Error::is_interrupted, crate::verif_common::stub_not_interrupted))]
#[cfg_attr(kani, kani::stub(crate::util::vec2d::Vec2D::fill, crate::util::vec2d::verif_h::fill_observer))]
pub fn reset_state_fill_0_0() {
    reset_equiv::<1, 0, 0, 0, 768, true>()
}

//@ harness props=C14,C02,C07 tier=quick unwind=8 unwindset=spec_fill:1540,extend_with:1540 mem_gb=10 timeout=1500
//@ bound: reset_state(p) with lc=0 lp=1 on a dirty lc+lp = 0 state (reallocate branch)
#[cfg_attr(kani, kani::proof)]
#[cfg_attr(kani, kani::stub(std::fmt::format, crate::verif_common::stub_format))]
#[cfg_attr(kani, kani::stub(std::io::Error::is_interrupted, crate::verif_common::stub_not_interrupted))]
#[cfg_attr(kani, kani::stub(crate::util::vec2d::Vec2D::fill, crate::util::vec2d::verif_h::fill_observer))]
pub fn reset_state_realloc_0_1() {
    reset_equiv::<1, 0, 0, 1, 768, false>()
}

//@ harness props=C14 tier=quick unwind=8 unwindset=spec_fill:1540,extend_with:1540 mem_gb=10 timeout=1500
//@ bound: reset_state(p) with lc+lp = 0 on a dirty lc+lp = 1 state (reallocate to a smaller table)
#[cfg_attr(kani, kani::proof)]
#[cfg_attr(kani, kani::stub(std::fmt::format, crate::verif_common::stub_format))]
#[cfg_attr(kani, kani::stub(std::io::Error::is_interrupted, crate::verif_common::stub_not_interrupted))]
#[cfg_attr(kani, kani::stub(crate::util::vec2d::Vec2D::fill, crate::util::vec2d::verif_h::fill_observer))]
pub fn reset_state_realloc_1_0() {
    reset_equiv::<1, 1, 0, 0, 1536, false>()
}

//@ harness props=C14 tier=quick unwind=8 unwindset=spec_fill:1540,extend_with:1540 mem_gb=10 timeout=1500
//@ bound: reset_state(p) with lc+lp = 1 on a dirty lc+lp = 1 state (fill branch, 1536 cells)
#[cfg_attr(kani, kani::proof)]
#[cfg_attr(kani, kani::stub(std::fmt::format, crate::verif_common::stub_format))]
#[cfg_attr(kani, kani::stub(std::io::Error::is_interrupted, crate::verif_common::stub_not_interrupted))]
#[cfg_attr(kani, kani::stub(crate::util::vec2d::Vec2D::fill, crate::util::vec2d::verif_h::fill_observer))]
pub fn reset_state_fill_1_1() {
    reset_equiv::<1, 1, 1, 0, 1536, true>()
}


/// Fill branch of reset_state on a SMALL stand-in table (rows = 1 << (lc+lp), 3 columns instead
/// of 0x300): `Vec2D::fill` runs for real (no observer), every cell is inspected at a quantified
/// index. The branch does not depend on the column count, so this decides "the kept table is
/// refilled completely, whatever lc/lp split" without the 768-iteration loops.
fn reset_fill_small<const OLD_LC: u32, const OLD_LP: u32, const LC: u32, const LP: u32, const CELLS: usize>() {
    let mut t = Tape::<48>::new();
    let pb = (t.u8() as u32) % 5;
    let j = (t.u8() as usize) % CELLS;
    let old = LzmaProperties { lc: OLD_LC, lp: OLD_LP, pb: (t.u8() as u32) % 5 };
    let mut d = light_state::<0>(old, None);
    d.literal_probs = mk_vec2d(Box::new([0x0123u16; CELLS]) as Box<[u16]>, 3);
    // one quantified cell of the other tables is dirty as well; loops a changed reset_state may
    // contain are unwound far enough here (the full-table instances bound them at 8)
    let table = 1 + t.u8() % 15;
    let idx = t.usize();
    let dirty = t.u16();
    assume(table != T_LIT);
    assume(idx < table_len(table, CELLS));
    set_cell_value(&mut d, table, idx, dirty);
    d.state = (t.u8() % 12) as usize;
    d.rep = [t.u32() as usize, t.u32() as usize, t.u32() as usize, t.u32() as usize];
    d.reset_state(LzmaProperties { lc: LC, lp: LP, pb });
    vassert!(any_cell_value(&d, table, idx) == 0x400, "reset/new: every probability cell is 0x400");
    vassert!(d.state == 0, "reset/new: state 0");
    vassert!(d.rep[0] == 0 && d.rep[1] == 0 && d.rep[2] == 0 && d.rep[3] == 0, "reset/new: reps 0");
    vassert!(vec2d_len(&d.literal_probs) == CELLS && vec2d_cols(&d.literal_probs) == 3, "reset(fill branch): the table is kept when lc+lp is unchanged");
    vassert!(vec2d_cell(&d.literal_probs, j) == 0x400, "reset(fill branch): every cell of the kept literal table is 0x400 again, whatever the lc/lp split");
    vassert!(d.lzma_props.lc == LC && d.lzma_props.lp == LP && d.lzma_props.pb == pb, "reset/new: properties installed");
    vcover!(j == CELLS - 1, "last_cell_inspected");
    forget(d);
}

//@ harness props=C14,C02 tier=quick unwind=32 mem_gb=4 timeout=600
//@ bound: reset_state fill branch, old (lc=1, lp=0) -> new (lc=0, lp=1), stand-in table of 2 rows x 3 columns, real Vec2D::fill, any cell
#[cfg_attr(kani, kani::proof)]
#[cfg_attr(kani, kani::stub(std::fmt::format, crate::verif_common::stub_format))]
pub fn reset_state_fill_small_lc0_lp1() {
    reset_fill_small::<1, 0, 0, 1, 6>()
}

//@ harness props=C14,C02 tier=quick unwind=32 mem_gb=4 timeout=600
//@ bound: reset_state fill branch, old (lc=0, lp=2) -> new (lc=1, lp=1), stand-in table of 4 rows x 3 columns, real Vec2D::fill, any cell
#[cfg_attr(kani, kani::proof)]
#[cfg_attr(kani, kani::stub(std::fmt::format, crate::verif_common::stub_format))]
pub fn reset_state_fill_small_lc1_lp1() {
    reset_fill_small::<0, 2, 1, 1, 12>()
}

//@ harness props=C14,C02 tier=quick unwind=32 mem_gb=4 timeout=600
//@ bound: reset_state fill branch, old (lc=2, lp=1) -> new (lc=0, lp=3), stand-in table of 8 rows x 3 columns, real Vec2D::fill, any cell
#[cfg_attr(kani, kani::proof)]
#[cfg_attr(kani, kani::stub(std::fmt::format, crate::verif_common::stub_format))]
pub fn reset_state_fill_small_lc0_lp3() {
    reset_fill_small::<2, 1, 0, 3, 24>()
}


//@ harness props=C14,C08 tier=quick unwind=8 mem_gb=3 timeout=300
//@ bound: LzmaParams::new on any (lc<=8, lp<=4, pb<=4, dict_size, size option incl. Some(u64::MAX)): the parameters a raw decoder is built from are the ones given, verbatim - the same values reset(Some(size)) installs
#[cfg_attr(kani, kani::proof)]
#[cfg_attr(kani, kani::stub(std::fmt::format, crate::verif_common::stub_format))]
pub fn raw_lzma_params_new_verbatim() {
    let mut t = Tape::<32>::new();
    let lc = (t.u8() % 9) as u32;
    let lp = (t.u8() % 5) as u32;
    let pb = (t.u8() % 5) as u32;
    let dict = t.u32();
    let some = t.bool();
    let n = t.u64();
    let size = if some { Some(n) } else { None };
    let p = LzmaParams::new(LzmaProperties { lc, lp, pb }, dict, size);
    vassert!(p.unpacked_size == size, "raw decoder: LzmaParams::new keeps the expected size verbatim (no sentinel: Some(u64::MAX) is a size, as it is for reset)");
    vassert!(p.dict_size == dict, "raw decoder: LzmaParams::new keeps the dictionary size verbatim");
    vassert!(p.properties.lc == lc && p.properties.lp == lp && p.properties.pb == pb, "raw decoder: LzmaParams::new keeps the properties verbatim");
    vcover!(some && n == u64::MAX, "size_all_ones");
    forget(p);
}

/// C16(c): once the declared size is reached, a further process_stream call (what Stream::write
/// does in the data state) consumes nothing and leaves output, coder state and carry untouched.
fn partial_size_reached<const R: usize, const P: usize>() {
    let mut t = Tape::<64>::new();
    let input: [u8; R] = t.bytes::<R>();
    let carry: [u8; 20] = t.bytes::<20>();
    let range = t.u32();
    let code = t.u32();
    let produced = (t.u16() as usize) & 0xFF;
    let size = t.u64();
    assume(size <= produced as u64);
    let mut d = light_state::<0>(LzmaProperties { lc: 0, lp: 0, pb: 0 }, Some(size));
    set_script(&mut d, [script(1, K_LIT), script(2, K_LIT), script(1, K_LIT), script(1, K_LIT)]);
    {
        let b = d.partial_input_buf.get_mut();
        let mut c = 0;
        while c < P {
            b[c] = carry[c];
            c += 1;
        }
    }
    d.partial_input_buf.set_position(P as u64);
    let mut rd = ArrReader::<R>::new(input, R);
    let mut win = SeqWindow::<4>::new(produced);
    let (ok, r_range, r_code) = {
        let mut rc = RangeDecoder::from_parts(&mut rd, range, code);
        let r = d.process_stream(&mut win, &mut rc);
        let ok = r.is_ok();
        forget(r);
        (ok, rc.range, rc.code)
    };
    vassert!(ok, "size reached: a further streaming call succeeds");
    vassert!(rd.pos == 0, "size reached: further input is not consumed");
    vassert!(win.n == 0, "size reached: nothing more is produced");
    vassert!(r_range == range && r_code == code, "size reached: coder state untouched");
    vassert!(d.partial_input_buf.position() == P as u64, "size reached: the carry is left alone");
    vcover!(size == produced as u64, "exactly_reached");
    vcover!(true, "end_reached");
    forget(d);
}

//@ harness props=C16,C08,C11 tier=quick unwind=8 unwindset=process_mode:10 mem_gb=4 timeout=600 native=no
//@ bound: process_stream with the declared size already reached (any size <= produced), 6 symbolic input bytes, abstract symbols
#[cfg_attr(kani, kani::proof)]
#[cfg_attr(kani, kani::stub(std::fmt::format, crate::verif_common::stub_format))]
#[cfg_attr(kani, kani::stub(std::io::Error::is_interrupted, crate::verif_common::stub_not_interrupted))]
#[cfg_attr(kani, kani::stub(crate::decode::lzma::DecoderState::process_next_inner, crate::decode::lzma::verif_h::abs_symbol))]
pub fn partial_size_reached_r6() {
    partial_size_reached::<6, 0>()
}

//@ harness props=C16,C08,C11 tier=quick unwind=22 unwindset=process_mode:10 mem_gb=4 timeout=600 native=no
//@ bound: process_stream with the declared size already reached while 3 bytes sit in the carry-over buffer, 6 symbolic input bytes
#[cfg_attr(kani, kani::proof)]
#[cfg_attr(kani, kani::stub(std::fmt::format, crate::verif_common::stub_format))]
#[cfg_attr(kani, kani::stub(std::io::Error::is_interrupted, crate::verif_common::stub_not_interrupted))]
#[cfg_attr(kani, kani::stub(crate::decode::lzma::DecoderState::process_next_inner, crate::decode::lzma::verif_h::abs_symbol))]
pub fn partial_size_reached_r6_carry3() {
    partial_size_reached::<6, 3>()
}

/// Stream::finish path: process(Finish) on (carry of P bytes, empty reader), no size in effect.
/// The carry holds NS complete abstract symbols of L bytes and TAIL further bytes.
fn finish_with_carry<const NS: usize, const L: usize, const TAIL: usize, const LASTK: usize>() {
    let mut t = Tape::<64>::new();
    let carry: [u8; 20] = t.bytes::<20>();
    let code = t.u32();
    let p = NS * L + TAIL;
    let mut d = light_state::<0>(LzmaProperties { lc: 0, lp: 0, pb: 0 }, None);
    let mut sc = [script(20, K_LIT); 4];
    let mut i = 0;
    while i < NS {
        sc[i] = script(L, if i + 1 == NS { LASTK } else { K_LIT });
        i += 1;
    }
    set_script(&mut d, sc);
    {
        let b = d.partial_input_buf.get_mut();
        let mut c = 0;
        while c < p {
            b[c] = carry[c];
            c += 1;
        }
    }
    d.partial_input_buf.set_position(p as u64);
    let mut rd = ArrReader::<1>::new([0], 0);
    let mut win = SeqWindow::<4>::new(0);
    let (ok, r_code) = {
        let mut rc = RangeDecoder::from_parts(&mut rd, 0xFFFF_FFFF, code);
        let r = d.process(&mut win, &mut rc);
        let ok = r.is_ok();
        forget(r);
        (ok, rc.code)
    };
    // model: fold the NS symbols
    let mut c = code;
    let mut rg = 0xFFFF_FFFFu32;
    let mut j = 0;
    while j < NS {
        let (a, b) = abs_fold(rg, c, carry[j * L], carry[j * L + L - 1]);
        rg = a;
        c = b;
        j += 1;
    }
    if TAIL > 0 {
        vassert!(!ok, "finish: bytes of an incomplete symbol left in the carry-over buffer are an error, whatever the coder state");
    } else if NS > 0 && LASTK == K_MARKER {
        vassert!(ok == (c == 0), "finish: marker at the very end of the carried bytes: Ok iff the coder is clean");
        if ok {
            vassert!(win.n == NS - 1, "finish: the symbols before the marker were committed");
        }
    } else {
        // no marker: only the recorded finding D4 (code == 0 at the end) may succeed
        vcover!(ok, "KF:C08:nosize-eof-code0-without-marker");
        if ok {
            vassert!(c == 0, "finish: without a marker success is only the recorded loop-head exit with code == 0");
        }
    }
    if ok {
        vassert!(r_code == c, "finish: coder state advanced by the carried symbols");
        vassert!(d.partial_input_buf.position() == 0, "finish: carry drained");
    }
    vcover!(true, "end_reached");
    forget(d);
}


//@ harness props=C05,C08,C15 tier=quick unwind=22 unwindset=process_mode:6 mem_gb=4 timeout=600 native=no opt_covers=KF:C08:nosize-eof-code0-without-marker
//@ bound: process(Finish) (what Stream::finish runs) on a carry-over buffer holding one complete literal (2 bytes) + 3 bytes of an incomplete symbol; empty reader, symbolic coder code, no size in effect
#[cfg_attr(kani, kani::proof)]
#[cfg_attr(kani, kani::stub(std::fmt::format, crate::verif_common::stub_format))]
#[cfg_attr(kani, kani::stub(std::io::Error::is_interrupted, crate::verif_common::stub_not_interrupted))]
#[cfg_attr(kani, kani::stub(crate::decode::lzma::DecoderState::process_next_inner, crate::decode::lzma::verif_h::abs_symbol))]
pub fn finish_carry_tail3() {
    finish_with_carry::<1, 2, 3, 0>()
}

//@ harness props=C05,C08,C15 tier=quick unwind=22 unwindset=process_mode:6 mem_gb=4 timeout=600 native=no opt_covers=KF:C08:nosize-eof-code0-without-marker
//@ bound: process(Finish) (what Stream::finish runs) on a carry-over buffer holding 5 bytes of an incomplete symbol only; empty reader, symbolic coder code, no size in effect
#[cfg_attr(kani, kani::proof)]
#[cfg_attr(kani, kani::stub(std::fmt::format, crate::verif_common::stub_format))]
#[cfg_attr(kani, kani::stub(std::io::Error::is_interrupted, crate::verif_common::stub_not_interrupted))]
#[cfg_attr(kani, kani::stub(crate::decode::lzma::DecoderState::process_next_inner, crate::decode::lzma::verif_h::abs_symbol))]
pub fn finish_carry_only_tail() {
    finish_with_carry::<0, 1, 5, 0>()
}

//@ harness props=C05,C08,C15 tier=quick unwind=22 unwindset=process_mode:6 mem_gb=4 timeout=600 native=no opt_covers=KF:C08:nosize-eof-code0-without-marker
//@ bound: process(Finish) (what Stream::finish runs) on a carry-over buffer holding literal + end marker (3 bytes each), nothing after; empty reader, symbolic coder code, no size in effect
#[cfg_attr(kani, kani::proof)]
#[cfg_attr(kani, kani::stub(std::fmt::format, crate::verif_common::stub_format))]
#[cfg_attr(kani, kani::stub(std::io::Error::is_interrupted, crate::verif_common::stub_not_interrupted))]
#[cfg_attr(kani, kani::stub(crate::decode::lzma::DecoderState::process_next_inner, crate::decode::lzma::verif_h::abs_symbol))]
pub fn finish_carry_marker() {
    finish_with_carry::<2, 3, 0, 1>()
}

//@ harness props=C05,C08,C15 tier=quick unwind=22 unwindset=process_mode:6 mem_gb=4 timeout=600 native=no
//@ bound: process(Finish) (what Stream::finish runs) on a carry-over buffer holding two literals, no marker; empty reader, symbolic coder code, no size in effect
#[cfg_attr(kani, kani::proof)]
#[cfg_attr(kani, kani::stub(std::fmt::format, crate::verif_common::stub_format))]
#[cfg_attr(kani, kani::stub(std::io::Error::is_interrupted, crate::verif_common::stub_not_interrupted))]
#[cfg_attr(kani, kani::stub(crate::decode::lzma::DecoderState::process_next_inner, crate::decode::lzma::verif_h::abs_symbol))]
pub fn finish_carry_lits() {
    finish_with_carry::<2, 3, 0, 0>()
}

// ---------------------------------------------------------------------------------------
// C14 / C10: the raw decoder wrappers (LzmaDecoder::new / reset), reset_state observed
// ---------------------------------------------------------------------------------------
pub fn observing_reset_state_lzma(d: &mut DecoderState, new_props: LzmaProperties) {
    d.lzma_props = new_props;
    note_reset(d);
}

//@ harness props=C14,C10,C07,C11 tier=quick unwind=8 mem_gb=4 timeout=600 native=no
//@ bound: LzmaDecoder::new (any dict_size, memlimit, size) and LzmaDecoder::reset(None | Some(None) | Some(Some(n))) with reset_state observed
#[cfg_attr(kani, kani::proof)]
#[cfg_attr(kani, kani::stub(std::fmt::format, crate::verif_common::stub_format))]
#[cfg_attr(kani, kani::stub(std::io::Error::is_interrupted, crate::verif_common::stub_not_interrupted))]
#[cfg_attr(kani, kani::stub(crate::decode::lzma::DecoderState::new, crate::decode::stream::verif_h::new_scripted_lit))]
#[cfg_attr(kani, kani::stub(crate::decode::lzma::DecoderState::reset_state, crate::decode::lzma::verif_h::observing_reset_state_lzma))]
pub fn raw_lzma_decoder_new_reset() {
    let mut t = Tape::<48>::new();
    let dict = t.u32();
    let size0_some = t.bool();
    let size0 = t.u64();
    let ml_some = t.bool();
    let ml = t.usize();
    let pb = (t.u8() % 5) as u32;
    let params = LzmaParams {
        properties: LzmaProperties { lc: 3, lp: 0, pb },
        dict_size: dict,
        unpacked_size: if size0_some { Some(size0) } else { None },
    };
    let r = LzmaDecoder::new(params, if ml_some { Some(ml) } else { None });
    match r {
        Ok(mut dec) => {
            vassert!(dict != 0, "raw decoder: a zero dictionary size is not accepted by the constructor");
            vassert!(dec.params.dict_size == dict, "raw decoder: dictionary size kept");
            vassert!(dec.state.unpacked_size == params.unpacked_size, "raw decoder: initial expected size");
            let mode = t.u8() % 3;
            let n = t.u64();
            let arg = match mode {
                0 => None,
                1 => Some(None),
                _ => Some(Some(n)),
            };
            // make the state dirty in a field reset_state (observed) does not touch
            dec.state.state = 5;
            dec.reset(arg);
            vassert!(reset_count(&dec.state) == 1, "raw decoder: reset resets the decoder state exactly once");
            vassert!(dec.state.lzma_props.lc == 3 && dec.state.lzma_props.lp == 0 && dec.state.lzma_props.pb == pb, "raw decoder: reset uses the decoder's own properties");
            let want = match mode {
                0 => params.unpacked_size,
                1 => None,
                _ => Some(n),
            };
            vassert!(dec.state.unpacked_size == want, "raw decoder: reset keeps the expected size on None and replaces it on Some");
            vcover!(mode == 2, "reset_with_size");
            forget(dec);
        }
        Err(e) => {
            vassert!(dict == 0, "raw decoder: the constructor only refuses a zero dictionary size");
            vcover!(true, "zero_dict_refused");
            forget(e);
        }
    }
}

//@ harness props=C10,C12,C01 tier=thorough optional=yes unwind=8 unwindset=process_mode:5,default_read_exact:4,extend_with:3 mem_gb=6 timeout=600 native=no
//@ bound: LzmaDecoder::decompress (one-shot path) on preamble + one 2-byte abstract literal, declared size 1, symbolic memlimit and dictionary size: Ok iff min(dict, 1) <= memlimit; output flushed
#[cfg_attr(kani, kani::proof)]
#[cfg_attr(kani, kani::stub(std::fmt::format, crate::verif_common::stub_format))]
#[cfg_attr(kani, kani::stub(std::io::Error::is_interrupted, crate::verif_common::stub_not_interrupted))]
#[cfg_attr(kani, kani::stub(crate::decode::lzma::DecoderState::process_next_inner, crate::decode::lzma::verif_h::abs_symbol))]
#[cfg_attr(kani, kani::stub(crate::decode::lzbuffer::LzCircularBuffer::from_stream, crate::decode::lzbuffer::verif_h::circ_from_stream_with_capacity))]
#[cfg_attr(kani, kani::stub(crate::decode::lzma::DecoderState::new, crate::decode::lzma::verif_h::new_scripted_from_statics))]
pub fn raw_lzma_decompress_memlimit() {
    let mut t = Tape::<32>::new();
    let f = [t.u8(), t.u8(), t.u8(), t.u8(), t.u8(), t.u8(), t.u8(), 0xEE];
    let ml = t.usize();
    let dict = t.u32();
    assume(dict >= 2);
    let mut dec = match mk_raw_decoder(dict as u32, Some(1), Some(ml), [script(2, K_LIT), script(20, K_LIT), script(20, K_LIT), script(20, K_LIT)]) {
        Some(d) => d,
        None => {
            vassert!(false, "raw decoder: the constructor accepts these parameters");
            return;
        }
    };
    let mut rd = ArrReader::<8>::new(f, 8);
    let mut sink = RecSink::<4>::new();
    let r = dec.decompress(&mut rd, &mut sink);
    let ok = r.is_ok();
    forget(r);
    vassert!(ok == (ml >= 1), "one-shot decoder: succeeds iff the window actually needed (1 byte) fits the memory limit");
    if ok {
        vassert!(sink.len == 1 && sink.buf[0] == f[5] ^ f[6], "one-shot decoder: output delivered");
        vassert!(sink.flushes >= 1 && sink.flushed_len == 1, "one-shot decoder: sink flushed after the last byte");
        vassert!(rd.pos == 7, "one-shot decoder: reader left right after the payload (size-bounded decode)");
    } else {
        vassert!(sink.len == 0, "one-shot decoder: nothing written when the limit is exceeded at the first byte");
    }
    vcover!(ok, "fits");
    vcover!(!ok, "limit_exceeded");
    forget(dec);
}


//@ harness props=C11,C08,C12 tier=quick unwind=8 unwindset=process_mode:5,default_read_exact:4 mem_gb=6 timeout=600 native=no
//@ bound: LzmaDecoder::decompress (one-shot path) with declared size 0 or 1 (concrete dictionary 4096, no limit): 5 preamble bytes (+ one 2-byte abstract literal) then foreign bytes: reader left right after the payload, sink flushed
#[cfg_attr(kani, kani::proof)]
#[cfg_attr(kani, kani::stub(std::fmt::format, crate::verif_common::stub_format))]
#[cfg_attr(kani, kani::stub(std::io::Error::is_interrupted, crate::verif_common::stub_not_interrupted))]
#[cfg_attr(kani, kani::stub(crate::decode::lzma::DecoderState::process_next_inner, crate::decode::lzma::verif_h::abs_symbol))]
#[cfg_attr(kani, kani::stub(crate::decode::lzbuffer::LzCircularBuffer::from_stream, crate::decode::lzbuffer::verif_h::circ_from_stream_with_capacity))]
#[cfg_attr(kani, kani::stub(crate::decode::lzma::DecoderState::new, crate::decode::lzma::verif_h::new_scripted_from_statics))]
pub fn raw_lzma_decompress_position() {
    let mut t = Tape::<32>::new();
    let f = [t.u8(), t.u8(), t.u8(), t.u8(), t.u8(), t.u8(), t.u8(), 0xEE, 0xEE];
    let one = t.bool();
    let size = if one { 1u64 } else { 0u64 };
    let mut dec = match mk_raw_decoder(0x1000 as u32, Some(size), None, [script(2, K_LIT), script(20, K_LIT), script(20, K_LIT), script(20, K_LIT)]) {
        Some(d) => d,
        None => {
            vassert!(false, "raw decoder: the constructor accepts these parameters");
            return;
        }
    };
    let mut rd = ArrReader::<9>::new(f, 9);
    let mut sink = CountSink::new();
    let r = dec.decompress(&mut rd, &mut sink);
    let ok = r.is_ok();
    forget(r);
    vassert!(ok, "one-shot decoder: a size-bounded payload followed by foreign bytes decodes");
    vassert!(rd.pos == if one { 7 } else { 5 }, "one-shot decoder: reader left immediately after the payload (the five preamble bytes are part of it, also for size 0)");
    vassert!(sink.bytes == size as usize && sink.flushes >= 1, "one-shot decoder: output delivered and flushed");
    vcover!(!one, "size_zero");
    forget(dec);
}

//@ harness props=C01 tier=thorough optional=yes unwind=10 unwindset=RangeDecoder.*E3getB:28,decode_distance:28 mem_gb=44 timeout=3000 native=no opt_covers=dry_longest,literal_lc1_lp3
//@ bound: ONE symbol of process_next_inner(update=true) from every valid state with symbolic (lc,lp,pb) over ALL 225 settings (lc<=8, lp<=4, pb<=4) on the full 0x300 << 12 = 3145728-cell literal table
#[cfg_attr(kani, kani::proof)]
#[cfg_attr(kani, kani::stub(std::fmt::format, crate::verif_common::stub_format))]
#[cfg_attr(kani, kani::stub(std::io::Error::is_interrupted, crate::verif_common::stub_not_interrupted))]
#[cfg_attr(kani, kani::stub(crate::decode::rangecoder::RangeDecoder::decode_bit, crate::decode::rangecoder::verif_h::oracle_decode_bit))]
#[cfg_attr(kani, kani::stub(crate::decode::rangecoder::RangeDecoder::get_bit, crate::decode::rangecoder::verif_h::oracle_get_bit))]
pub fn sym_conformance_allprops() {
    one_symbol::<3145728, 1, true>()
}

//@ harness props=C12,C01 tier=quick unwind=8 unwindset=process_mode:6,default_read_exact:4,extend_with:3 mem_gb=6 timeout=600 native=no
//@ bound: LzmaDecoder::decompress with dictionary size 2, three 1-byte abstract literals, sink failing on its first write (the flush at the window wrap): Err, nothing written after the failure
#[cfg_attr(kani, kani::proof)]
#[cfg_attr(kani, kani::stub(std::fmt::format, crate::verif_common::stub_format))]
#[cfg_attr(kani, kani::stub(std::io::Error::is_interrupted, crate::verif_common::stub_not_interrupted))]
#[cfg_attr(kani, kani::stub(crate::decode::lzma::DecoderState::process_next_inner, crate::decode::lzma::verif_h::abs_symbol))]
#[cfg_attr(kani, kani::stub(crate::decode::lzbuffer::LzCircularBuffer::from_stream, crate::decode::lzbuffer::verif_h::circ_from_stream_with_capacity))]
#[cfg_attr(kani, kani::stub(crate::decode::lzma::DecoderState::new, crate::decode::lzma::verif_h::new_scripted_from_statics))]
pub fn raw_lzma_decompress_sink_fails_at_wrap() {
    decompress_wrap::<true>()
}

//@ harness props=C12,C01 tier=quick unwind=8 unwindset=process_mode:6,default_read_exact:4,extend_with:3 mem_gb=6 timeout=600 native=no opt_covers=sink_failed_at_wrap
//@ bound: LzmaDecoder::decompress with dictionary size 2, three 1-byte abstract literals, healthy sink: output across the window wrap, two writes, flush
#[cfg_attr(kani, kani::proof)]
#[cfg_attr(kani, kani::stub(std::fmt::format, crate::verif_common::stub_format))]
#[cfg_attr(kani, kani::stub(std::io::Error::is_interrupted, crate::verif_common::stub_not_interrupted))]
#[cfg_attr(kani, kani::stub(crate::decode::lzma::DecoderState::process_next_inner, crate::decode::lzma::verif_h::abs_symbol))]
#[cfg_attr(kani, kani::stub(crate::decode::lzbuffer::LzCircularBuffer::from_stream, crate::decode::lzbuffer::verif_h::circ_from_stream_with_capacity))]
#[cfg_attr(kani, kani::stub(crate::decode::lzma::DecoderState::new, crate::decode::lzma::verif_h::new_scripted_from_statics))]
pub fn raw_lzma_decompress_across_wrap() {
    decompress_wrap::<false>()
}

fn decompress_wrap<const FAIL: bool>() {
    let mut t = Tape::<32>::new();
    let f = [t.u8(), t.u8(), t.u8(), t.u8(), t.u8(), t.u8(), t.u8(), t.u8()];
    let fail = FAIL;
    let mut dec = match mk_raw_decoder(2 as u32, Some(3), None, [script(1, K_LIT), script(1, K_LIT), script(1, K_LIT), script(20, K_LIT)]) {
        Some(d) => d,
        None => {
            vassert!(false, "raw decoder: the constructor accepts these parameters");
            return;
        }
    };
    let mut rd = ArrReader::<8>::new(f, 8);
    let mut sink = if fail { RecSink::<8>::failing(0) } else { RecSink::<8>::new() };
    let r = dec.decompress(&mut rd, &mut sink);
    let ok = r.is_ok();
    forget(r);
    if fail {
        vassert!(!ok, "one-shot decoder: a sink failing at the window wrap is reported");
        vassert!(!sink.write_after_fail, "one-shot decoder: nothing is written after the sink failed (no second flush of the same window)");
        vassert!(sink.len == 0, "one-shot decoder: the failed sink recorded nothing, so accepted bytes are trivially a prefix");
    } else {
        vassert!(ok, "one-shot decoder: decodes across a window wrap");
        vassert!(sink.len == 3 && sink.buf[0] == 0 && sink.buf[2] == 0, "one-shot decoder: all three bytes delivered (first ^ last of a 1-byte symbol is 0)");
        vassert!(sink.writes == 2, "one-shot decoder: one flush at the wrap, one at finish");
        vassert!(sink.flushes >= 1, "one-shot decoder: sink flushed");
    }
    vcover!(fail, "sink_failed_at_wrap");
    forget(dec);
}


// ----- scripted stand-in for DecoderState::process (used by the Stream::finish glue harness) -----
pub static PR_CALLS: std::sync::atomic::AtomicUsize = std::sync::atomic::AtomicUsize::new(0);
pub static PR_LEN: std::sync::atomic::AtomicUsize = std::sync::atomic::AtomicUsize::new(usize::MAX);
pub static PR_FIRST: std::sync::atomic::AtomicUsize = std::sync::atomic::AtomicUsize::new(usize::MAX);
impl DecoderState {
    /// records how many input bytes it is given (and the first one), consumes them, succeeds
    pub fn scripted_process<W: io::Write, LZB: LzBuffer<W>, R: io::BufRead>(
        &mut self,
        _output: &mut LZB,
        rangecoder: &mut RangeDecoder<'_, R>,
    ) -> error::Result<()> {
        use std::sync::atomic::Ordering;
        PR_CALLS.store(PR_CALLS.load(Ordering::Relaxed) + 1, Ordering::Relaxed);
        let (n, b0) = match rangecoder.stream.fill_buf() {
            Ok(b) => (b.len(), if b.is_empty() { 0usize } else { b[0] as usize }),
            Err(e) => return Err(error::Error::IoError(e)),
        };
        rangecoder.stream.consume(n);
        PR_LEN.store(n, Ordering::Relaxed);
        PR_FIRST.store(b0, Ordering::Relaxed);
        Ok(())
    }
}

// ----- thorough tier: generated grid of partial-mode step shapes -----

//@ harness props=C05,C15 tier=thorough unwind=22 unwindset=process_mode:7 mem_gb=4 timeout=900 native=no opt_covers=commit_and_carry,nothing_committed
//@ bound: one process_stream call: carry 0 bytes, reader 0 bytes, symbol lengths 2,19,1(,20); contents/range/code symbolic; abstract symbols
#[cfg_attr(kani, kani::proof)]
#[cfg_attr(kani, kani::stub(std::fmt::format, crate::verif_common::stub_format))]
#[cfg_attr(kani, kani::stub(std::io::Error::is_interrupted, crate::verif_common::stub_not_interrupted))]
#[cfg_attr(kani, kani::stub(crate::decode::lzma::DecoderState::process_next_inner, crate::decode::lzma::verif_h::abs_symbol))]
pub fn partial_p0_r0_l2_19_1() {
    partial_step::<0, 0, 2, 19, 1>()
}

//@ harness props=C05,C15 tier=thorough unwind=22 unwindset=process_mode:7 mem_gb=4 timeout=900 native=no opt_covers=commit_and_carry,nothing_committed
//@ bound: one process_stream call: carry 0 bytes, reader 0 bytes, symbol lengths 20,1,1(,20); contents/range/code symbolic; abstract symbols
#[cfg_attr(kani, kani::proof)]
#[cfg_attr(kani, kani::stub(std::fmt::format, crate::verif_common::stub_format))]
#[cfg_attr(kani, kani::stub(std::io::Error::is_interrupted, crate::verif_common::stub_not_interrupted))]
#[cfg_attr(kani, kani::stub(crate::decode::lzma::DecoderState::process_next_inner, crate::decode::lzma::verif_h::abs_symbol))]
pub fn partial_p0_r0_l20_1_1() {
    partial_step::<0, 0, 20, 1, 1>()
}

//@ harness props=C05,C15 tier=thorough unwind=22 unwindset=process_mode:7 mem_gb=4 timeout=900 native=no opt_covers=commit_and_carry,nothing_committed
//@ bound: one process_stream call: carry 0 bytes, reader 0 bytes, symbol lengths 5,20,3(,20); contents/range/code symbolic; abstract symbols
#[cfg_attr(kani, kani::proof)]
#[cfg_attr(kani, kani::stub(std::fmt::format, crate::verif_common::stub_format))]
#[cfg_attr(kani, kani::stub(std::io::Error::is_interrupted, crate::verif_common::stub_not_interrupted))]
#[cfg_attr(kani, kani::stub(crate::decode::lzma::DecoderState::process_next_inner, crate::decode::lzma::verif_h::abs_symbol))]
pub fn partial_p0_r0_l5_20_3() {
    partial_step::<0, 0, 5, 20, 3>()
}

//@ harness props=C05,C15 tier=thorough unwind=22 unwindset=process_mode:7 mem_gb=4 timeout=900 native=no opt_covers=commit_and_carry,nothing_committed
//@ bound: one process_stream call: carry 0 bytes, reader 0 bytes, symbol lengths 19,2,20(,20); contents/range/code symbolic; abstract symbols
#[cfg_attr(kani, kani::proof)]
#[cfg_attr(kani, kani::stub(std::fmt::format, crate::verif_common::stub_format))]
#[cfg_attr(kani, kani::stub(std::io::Error::is_interrupted, crate::verif_common::stub_not_interrupted))]
#[cfg_attr(kani, kani::stub(crate::decode::lzma::DecoderState::process_next_inner, crate::decode::lzma::verif_h::abs_symbol))]
pub fn partial_p0_r0_l19_2_20() {
    partial_step::<0, 0, 19, 2, 20>()
}

//@ harness props=C05,C15 tier=thorough unwind=22 unwindset=process_mode:7 mem_gb=4 timeout=900 native=no opt_covers=commit_and_carry,nothing_committed
//@ bound: one process_stream call: carry 0 bytes, reader 1 bytes, symbol lengths 2,19,1(,20); contents/range/code symbolic; abstract symbols
#[cfg_attr(kani, kani::proof)]
#[cfg_attr(kani, kani::stub(std::fmt::format, crate::verif_common::stub_format))]
#[cfg_attr(kani, kani::stub(std::io::Error::is_interrupted, crate::verif_common::stub_not_interrupted))]
#[cfg_attr(kani, kani::stub(crate::decode::lzma::DecoderState::process_next_inner, crate::decode::lzma::verif_h::abs_symbol))]
pub fn partial_p0_r1_l2_19_1() {
    partial_step::<0, 1, 2, 19, 1>()
}

//@ harness props=C05,C15 tier=thorough unwind=22 unwindset=process_mode:7 mem_gb=4 timeout=900 native=no opt_covers=commit_and_carry,nothing_committed
//@ bound: one process_stream call: carry 0 bytes, reader 1 bytes, symbol lengths 20,1,1(,20); contents/range/code symbolic; abstract symbols
#[cfg_attr(kani, kani::proof)]
#[cfg_attr(kani, kani::stub(std::fmt::format, crate::verif_common::stub_format))]
#[cfg_attr(kani, kani::stub(std::io::Error::is_interrupted, crate::verif_common::stub_not_interrupted))]
#[cfg_attr(kani, kani::stub(crate::decode::lzma::DecoderState::process_next_inner, crate::decode::lzma::verif_h::abs_symbol))]
pub fn partial_p0_r1_l20_1_1() {
    partial_step::<0, 1, 20, 1, 1>()
}

//@ harness props=C05,C15 tier=thorough unwind=22 unwindset=process_mode:7 mem_gb=4 timeout=900 native=no opt_covers=commit_and_carry,nothing_committed
//@ bound: one process_stream call: carry 0 bytes, reader 1 bytes, symbol lengths 5,20,3(,20); contents/range/code symbolic; abstract symbols
#[cfg_attr(kani, kani::proof)]
#[cfg_attr(kani, kani::stub(std::fmt::format, crate::verif_common::stub_format))]
#[cfg_attr(kani, kani::stub(std::io::Error::is_interrupted, crate::verif_common::stub_not_interrupted))]
#[cfg_attr(kani, kani::stub(crate::decode::lzma::DecoderState::process_next_inner, crate::decode::lzma::verif_h::abs_symbol))]
pub fn partial_p0_r1_l5_20_3() {
    partial_step::<0, 1, 5, 20, 3>()
}

//@ harness props=C05,C15 tier=thorough unwind=22 unwindset=process_mode:7 mem_gb=4 timeout=900 native=no opt_covers=commit_and_carry,nothing_committed
//@ bound: one process_stream call: carry 0 bytes, reader 1 bytes, symbol lengths 19,2,20(,20); contents/range/code symbolic; abstract symbols
#[cfg_attr(kani, kani::proof)]
#[cfg_attr(kani, kani::stub(std::fmt::format, crate::verif_common::stub_format))]
#[cfg_attr(kani, kani::stub(std::io::Error::is_interrupted, crate::verif_common::stub_not_interrupted))]
#[cfg_attr(kani, kani::stub(crate::decode::lzma::DecoderState::process_next_inner, crate::decode::lzma::verif_h::abs_symbol))]
pub fn partial_p0_r1_l19_2_20() {
    partial_step::<0, 1, 19, 2, 20>()
}

//@ harness props=C05,C15 tier=thorough unwind=22 unwindset=process_mode:7 mem_gb=4 timeout=900 native=no opt_covers=commit_and_carry,nothing_committed
//@ bound: one process_stream call: carry 0 bytes, reader 3 bytes, symbol lengths 1,1,1(,20); contents/range/code symbolic; abstract symbols
#[cfg_attr(kani, kani::proof)]
#[cfg_attr(kani, kani::stub(std::fmt::format, crate::verif_common::stub_format))]
#[cfg_attr(kani, kani::stub(std::io::Error::is_interrupted, crate::verif_common::stub_not_interrupted))]
#[cfg_attr(kani, kani::stub(crate::decode::lzma::DecoderState::process_next_inner, crate::decode::lzma::verif_h::abs_symbol))]
pub fn partial_p0_r3_l1_1_1() {
    partial_step::<0, 3, 1, 1, 1>()
}

//@ harness props=C05,C15 tier=thorough unwind=22 unwindset=process_mode:7 mem_gb=4 timeout=900 native=no opt_covers=commit_and_carry,nothing_committed
//@ bound: one process_stream call: carry 0 bytes, reader 3 bytes, symbol lengths 2,19,1(,20); contents/range/code symbolic; abstract symbols
#[cfg_attr(kani, kani::proof)]
#[cfg_attr(kani, kani::stub(std::fmt::format, crate::verif_common::stub_format))]
#[cfg_attr(kani, kani::stub(std::io::Error::is_interrupted, crate::verif_common::stub_not_interrupted))]
#[cfg_attr(kani, kani::stub(crate::decode::lzma::DecoderState::process_next_inner, crate::decode::lzma::verif_h::abs_symbol))]
pub fn partial_p0_r3_l2_19_1() {
    partial_step::<0, 3, 2, 19, 1>()
}

//@ harness props=C05,C15 tier=thorough unwind=22 unwindset=process_mode:7 mem_gb=4 timeout=900 native=no opt_covers=commit_and_carry,nothing_committed
//@ bound: one process_stream call: carry 0 bytes, reader 3 bytes, symbol lengths 20,1,1(,20); contents/range/code symbolic; abstract symbols
#[cfg_attr(kani, kani::proof)]
#[cfg_attr(kani, kani::stub(std::fmt::format, crate::verif_common::stub_format))]
#[cfg_attr(kani, kani::stub(std::io::Error::is_interrupted, crate::verif_common::stub_not_interrupted))]
#[cfg_attr(kani, kani::stub(crate::decode::lzma::DecoderState::process_next_inner, crate::decode::lzma::verif_h::abs_symbol))]
pub fn partial_p0_r3_l20_1_1() {
    partial_step::<0, 3, 20, 1, 1>()
}

//@ harness props=C05,C15 tier=thorough unwind=22 unwindset=process_mode:7 mem_gb=4 timeout=900 native=no opt_covers=commit_and_carry,nothing_committed
//@ bound: one process_stream call: carry 0 bytes, reader 3 bytes, symbol lengths 5,20,3(,20); contents/range/code symbolic; abstract symbols
#[cfg_attr(kani, kani::proof)]
#[cfg_attr(kani, kani::stub(std::fmt::format, crate::verif_common::stub_format))]
#[cfg_attr(kani, kani::stub(std::io::Error::is_interrupted, crate::verif_common::stub_not_interrupted))]
#[cfg_attr(kani, kani::stub(crate::decode::lzma::DecoderState::process_next_inner, crate::decode::lzma::verif_h::abs_symbol))]
pub fn partial_p0_r3_l5_20_3() {
    partial_step::<0, 3, 5, 20, 3>()
}

//@ harness props=C05,C15 tier=thorough unwind=22 unwindset=process_mode:7 mem_gb=4 timeout=900 native=no opt_covers=commit_and_carry,nothing_committed
//@ bound: one process_stream call: carry 0 bytes, reader 3 bytes, symbol lengths 19,2,20(,20); contents/range/code symbolic; abstract symbols
#[cfg_attr(kani, kani::proof)]
#[cfg_attr(kani, kani::stub(std::fmt::format, crate::verif_common::stub_format))]
#[cfg_attr(kani, kani::stub(std::io::Error::is_interrupted, crate::verif_common::stub_not_interrupted))]
#[cfg_attr(kani, kani::stub(crate::decode::lzma::DecoderState::process_next_inner, crate::decode::lzma::verif_h::abs_symbol))]
pub fn partial_p0_r3_l19_2_20() {
    partial_step::<0, 3, 19, 2, 20>()
}

//@ harness props=C05,C15 tier=thorough unwind=22 unwindset=process_mode:7 mem_gb=4 timeout=900 native=no opt_covers=commit_and_carry,nothing_committed
//@ bound: one process_stream call: carry 0 bytes, reader 8 bytes, symbol lengths 1,1,1(,20); contents/range/code symbolic; abstract symbols
#[cfg_attr(kani, kani::proof)]
#[cfg_attr(kani, kani::stub(std::fmt::format, crate::verif_common::stub_format))]
#[cfg_attr(kani, kani::stub(std::io::Error::is_interrupted, crate::verif_common::stub_not_interrupted))]
#[cfg_attr(kani, kani::stub(crate::decode::lzma::DecoderState::process_next_inner, crate::decode::lzma::verif_h::abs_symbol))]
pub fn partial_p0_r8_l1_1_1() {
    partial_step::<0, 8, 1, 1, 1>()
}

//@ harness props=C05,C15 tier=thorough unwind=22 unwindset=process_mode:7 mem_gb=4 timeout=900 native=no opt_covers=commit_and_carry,nothing_committed
//@ bound: one process_stream call: carry 0 bytes, reader 8 bytes, symbol lengths 2,19,1(,20); contents/range/code symbolic; abstract symbols
#[cfg_attr(kani, kani::proof)]
#[cfg_attr(kani, kani::stub(std::fmt::format, crate::verif_common::stub_format))]
#[cfg_attr(kani, kani::stub(std::io::Error::is_interrupted, crate::verif_common::stub_not_interrupted))]
#[cfg_attr(kani, kani::stub(crate::decode::lzma::DecoderState::process_next_inner, crate::decode::lzma::verif_h::abs_symbol))]
pub fn partial_p0_r8_l2_19_1() {
    partial_step::<0, 8, 2, 19, 1>()
}

//@ harness props=C05,C15 tier=thorough unwind=22 unwindset=process_mode:7 mem_gb=4 timeout=900 native=no opt_covers=commit_and_carry,nothing_committed
//@ bound: one process_stream call: carry 0 bytes, reader 8 bytes, symbol lengths 5,20,3(,20); contents/range/code symbolic; abstract symbols
#[cfg_attr(kani, kani::proof)]
#[cfg_attr(kani, kani::stub(std::fmt::format, crate::verif_common::stub_format))]
#[cfg_attr(kani, kani::stub(std::io::Error::is_interrupted, crate::verif_common::stub_not_interrupted))]
#[cfg_attr(kani, kani::stub(crate::decode::lzma::DecoderState::process_next_inner, crate::decode::lzma::verif_h::abs_symbol))]
pub fn partial_p0_r8_l5_20_3() {
    partial_step::<0, 8, 5, 20, 3>()
}

//@ harness props=C05,C15 tier=thorough unwind=22 unwindset=process_mode:7 mem_gb=4 timeout=900 native=no opt_covers=commit_and_carry,nothing_committed
//@ bound: one process_stream call: carry 0 bytes, reader 8 bytes, symbol lengths 19,2,20(,20); contents/range/code symbolic; abstract symbols
#[cfg_attr(kani, kani::proof)]
#[cfg_attr(kani, kani::stub(std::fmt::format, crate::verif_common::stub_format))]
#[cfg_attr(kani, kani::stub(std::io::Error::is_interrupted, crate::verif_common::stub_not_interrupted))]
#[cfg_attr(kani, kani::stub(crate::decode::lzma::DecoderState::process_next_inner, crate::decode::lzma::verif_h::abs_symbol))]
pub fn partial_p0_r8_l19_2_20() {
    partial_step::<0, 8, 19, 2, 20>()
}

//@ harness props=C05,C15 tier=thorough unwind=22 unwindset=process_mode:7 mem_gb=4 timeout=900 native=no opt_covers=commit_and_carry,nothing_committed
//@ bound: one process_stream call: carry 1 bytes, reader 0 bytes, symbol lengths 1,1,1(,20); contents/range/code symbolic; abstract symbols
#[cfg_attr(kani, kani::proof)]
#[cfg_attr(kani, kani::stub(std::fmt::format, crate::verif_common::stub_format))]
#[cfg_attr(kani, kani::stub(std::io::Error::is_interrupted, crate::verif_common::stub_not_interrupted))]
#[cfg_attr(kani, kani::stub(crate::decode::lzma::DecoderState::process_next_inner, crate::decode::lzma::verif_h::abs_symbol))]
pub fn partial_p1_r0_l1_1_1() {
    partial_step::<1, 0, 1, 1, 1>()
}

//@ harness props=C05,C15 tier=thorough unwind=22 unwindset=process_mode:7 mem_gb=4 timeout=900 native=no opt_covers=commit_and_carry,nothing_committed
//@ bound: one process_stream call: carry 1 bytes, reader 0 bytes, symbol lengths 2,19,1(,20); contents/range/code symbolic; abstract symbols
#[cfg_attr(kani, kani::proof)]
#[cfg_attr(kani, kani::stub(std::fmt::format, crate::verif_common::stub_format))]
#[cfg_attr(kani, kani::stub(std::io::Error::is_interrupted, crate::verif_common::stub_not_interrupted))]
#[cfg_attr(kani, kani::stub(crate::decode::lzma::DecoderState::process_next_inner, crate::decode::lzma::verif_h::abs_symbol))]
pub fn partial_p1_r0_l2_19_1() {
    partial_step::<1, 0, 2, 19, 1>()
}

//@ harness props=C05,C15 tier=thorough unwind=22 unwindset=process_mode:7 mem_gb=4 timeout=900 native=no opt_covers=commit_and_carry,nothing_committed
//@ bound: one process_stream call: carry 1 bytes, reader 0 bytes, symbol lengths 20,1,1(,20); contents/range/code symbolic; abstract symbols
#[cfg_attr(kani, kani::proof)]
#[cfg_attr(kani, kani::stub(std::fmt::format, crate::verif_common::stub_format))]
#[cfg_attr(kani, kani::stub(std::io::Error::is_interrupted, crate::verif_common::stub_not_interrupted))]
#[cfg_attr(kani, kani::stub(crate::decode::lzma::DecoderState::process_next_inner, crate::decode::lzma::verif_h::abs_symbol))]
pub fn partial_p1_r0_l20_1_1() {
    partial_step::<1, 0, 20, 1, 1>()
}

//@ harness props=C05,C15 tier=thorough unwind=22 unwindset=process_mode:7 mem_gb=4 timeout=900 native=no opt_covers=commit_and_carry,nothing_committed
//@ bound: one process_stream call: carry 1 bytes, reader 0 bytes, symbol lengths 5,20,3(,20); contents/range/code symbolic; abstract symbols
#[cfg_attr(kani, kani::proof)]
#[cfg_attr(kani, kani::stub(std::fmt::format, crate::verif_common::stub_format))]
#[cfg_attr(kani, kani::stub(std::io::Error::is_interrupted, crate::verif_common::stub_not_interrupted))]
#[cfg_attr(kani, kani::stub(crate::decode::lzma::DecoderState::process_next_inner, crate::decode::lzma::verif_h::abs_symbol))]
pub fn partial_p1_r0_l5_20_3() {
    partial_step::<1, 0, 5, 20, 3>()
}

//@ harness props=C05,C15 tier=thorough unwind=22 unwindset=process_mode:7 mem_gb=4 timeout=900 native=no opt_covers=commit_and_carry,nothing_committed
//@ bound: one process_stream call: carry 1 bytes, reader 0 bytes, symbol lengths 19,2,20(,20); contents/range/code symbolic; abstract symbols
#[cfg_attr(kani, kani::proof)]
#[cfg_attr(kani, kani::stub(std::fmt::format, crate::verif_common::stub_format))]
#[cfg_attr(kani, kani::stub(std::io::Error::is_interrupted, crate::verif_common::stub_not_interrupted))]
#[cfg_attr(kani, kani::stub(crate::decode::lzma::DecoderState::process_next_inner, crate::decode::lzma::verif_h::abs_symbol))]
pub fn partial_p1_r0_l19_2_20() {
    partial_step::<1, 0, 19, 2, 20>()
}

//@ harness props=C05,C15 tier=thorough unwind=22 unwindset=process_mode:7 mem_gb=4 timeout=900 native=no opt_covers=commit_and_carry,nothing_committed
//@ bound: one process_stream call: carry 1 bytes, reader 1 bytes, symbol lengths 1,1,1(,20); contents/range/code symbolic; abstract symbols
#[cfg_attr(kani, kani::proof)]
#[cfg_attr(kani, kani::stub(std::fmt::format, crate::verif_common::stub_format))]
#[cfg_attr(kani, kani::stub(std::io::Error::is_interrupted, crate::verif_common::stub_not_interrupted))]
#[cfg_attr(kani, kani::stub(crate::decode::lzma::DecoderState::process_next_inner, crate::decode::lzma::verif_h::abs_symbol))]
pub fn partial_p1_r1_l1_1_1() {
    partial_step::<1, 1, 1, 1, 1>()
}

//@ harness props=C05,C15 tier=thorough unwind=22 unwindset=process_mode:7 mem_gb=4 timeout=900 native=no opt_covers=commit_and_carry,nothing_committed
//@ bound: one process_stream call: carry 1 bytes, reader 1 bytes, symbol lengths 2,19,1(,20); contents/range/code symbolic; abstract symbols
#[cfg_attr(kani, kani::proof)]
#[cfg_attr(kani, kani::stub(std::fmt::format, crate::verif_common::stub_format))]
#[cfg_attr(kani, kani::stub(std::io::Error::is_interrupted, crate::verif_common::stub_not_interrupted))]
#[cfg_attr(kani, kani::stub(crate::decode::lzma::DecoderState::process_next_inner, crate::decode::lzma::verif_h::abs_symbol))]
pub fn partial_p1_r1_l2_19_1() {
    partial_step::<1, 1, 2, 19, 1>()
}

//@ harness props=C05,C15 tier=thorough unwind=22 unwindset=process_mode:7 mem_gb=4 timeout=900 native=no opt_covers=commit_and_carry,nothing_committed
//@ bound: one process_stream call: carry 1 bytes, reader 1 bytes, symbol lengths 20,1,1(,20); contents/range/code symbolic; abstract symbols
#[cfg_attr(kani, kani::proof)]
#[cfg_attr(kani, kani::stub(std::fmt::format, crate::verif_common::stub_format))]
#[cfg_attr(kani, kani::stub(std::io::Error::is_interrupted, crate::verif_common::stub_not_interrupted))]
#[cfg_attr(kani, kani::stub(crate::decode::lzma::DecoderState::process_next_inner, crate::decode::lzma::verif_h::abs_symbol))]
pub fn partial_p1_r1_l20_1_1() {
    partial_step::<1, 1, 20, 1, 1>()
}

//@ harness props=C05,C15 tier=thorough unwind=22 unwindset=process_mode:7 mem_gb=4 timeout=900 native=no opt_covers=commit_and_carry,nothing_committed
//@ bound: one process_stream call: carry 1 bytes, reader 1 bytes, symbol lengths 5,20,3(,20); contents/range/code symbolic; abstract symbols
#[cfg_attr(kani, kani::proof)]
#[cfg_attr(kani, kani::stub(std::fmt::format, crate::verif_common::stub_format))]
#[cfg_attr(kani, kani::stub(std::io::Error::is_interrupted, crate::verif_common::stub_not_interrupted))]
#[cfg_attr(kani, kani::stub(crate::decode::lzma::DecoderState::process_next_inner, crate::decode::lzma::verif_h::abs_symbol))]
pub fn partial_p1_r1_l5_20_3() {
    partial_step::<1, 1, 5, 20, 3>()
}

//@ harness props=C05,C15 tier=thorough unwind=22 unwindset=process_mode:7 mem_gb=4 timeout=900 native=no opt_covers=commit_and_carry,nothing_committed
//@ bound: one process_stream call: carry 1 bytes, reader 1 bytes, symbol lengths 19,2,20(,20); contents/range/code symbolic; abstract symbols
#[cfg_attr(kani, kani::proof)]
#[cfg_attr(kani, kani::stub(std::fmt::format, crate::verif_common::stub_format))]
#[cfg_attr(kani, kani::stub(std::io::Error::is_interrupted, crate::verif_common::stub_not_interrupted))]
#[cfg_attr(kani, kani::stub(crate::decode::lzma::DecoderState::process_next_inner, crate::decode::lzma::verif_h::abs_symbol))]
pub fn partial_p1_r1_l19_2_20() {
    partial_step::<1, 1, 19, 2, 20>()
}

//@ harness props=C05,C15 tier=thorough unwind=22 unwindset=process_mode:7 mem_gb=4 timeout=900 native=no opt_covers=commit_and_carry,nothing_committed
//@ bound: one process_stream call: carry 1 bytes, reader 3 bytes, symbol lengths 1,1,1(,20); contents/range/code symbolic; abstract symbols
#[cfg_attr(kani, kani::proof)]
#[cfg_attr(kani, kani::stub(std::fmt::format, crate::verif_common::stub_format))]
#[cfg_attr(kani, kani::stub(std::io::Error::is_interrupted, crate::verif_common::stub_not_interrupted))]
#[cfg_attr(kani, kani::stub(crate::decode::lzma::DecoderState::process_next_inner, crate::decode::lzma::verif_h::abs_symbol))]
pub fn partial_p1_r3_l1_1_1() {
    partial_step::<1, 3, 1, 1, 1>()
}

//@ harness props=C05,C15 tier=thorough unwind=22 unwindset=process_mode:7 mem_gb=4 timeout=900 native=no opt_covers=commit_and_carry,nothing_committed
//@ bound: one process_stream call: carry 1 bytes, reader 3 bytes, symbol lengths 2,19,1(,20); contents/range/code symbolic; abstract symbols
#[cfg_attr(kani, kani::proof)]
#[cfg_attr(kani, kani::stub(std::fmt::format, crate::verif_common::stub_format))]
#[cfg_attr(kani, kani::stub(std::io::Error::is_interrupted, crate::verif_common::stub_not_interrupted))]
#[cfg_attr(kani, kani::stub(crate::decode::lzma::DecoderState::process_next_inner, crate::decode::lzma::verif_h::abs_symbol))]
pub fn partial_p1_r3_l2_19_1() {
    partial_step::<1, 3, 2, 19, 1>()
}

//@ harness props=C05,C15 tier=thorough unwind=22 unwindset=process_mode:7 mem_gb=4 timeout=900 native=no opt_covers=commit_and_carry,nothing_committed
//@ bound: one process_stream call: carry 1 bytes, reader 3 bytes, symbol lengths 20,1,1(,20); contents/range/code symbolic; abstract symbols
#[cfg_attr(kani, kani::proof)]
#[cfg_attr(kani, kani::stub(std::fmt::format, crate::verif_common::stub_format))]
#[cfg_attr(kani, kani::stub(std::io::Error::is_interrupted, crate::verif_common::stub_not_interrupted))]
#[cfg_attr(kani, kani::stub(crate::decode::lzma::DecoderState::process_next_inner, crate::decode::lzma::verif_h::abs_symbol))]
pub fn partial_p1_r3_l20_1_1() {
    partial_step::<1, 3, 20, 1, 1>()
}

//@ harness props=C05,C15 tier=thorough unwind=22 unwindset=process_mode:7 mem_gb=4 timeout=900 native=no opt_covers=commit_and_carry,nothing_committed
//@ bound: one process_stream call: carry 1 bytes, reader 3 bytes, symbol lengths 5,20,3(,20); contents/range/code symbolic; abstract symbols
#[cfg_attr(kani, kani::proof)]
#[cfg_attr(kani, kani::stub(std::fmt::format, crate::verif_common::stub_format))]
#[cfg_attr(kani, kani::stub(std::io::Error::is_interrupted, crate::verif_common::stub_not_interrupted))]
#[cfg_attr(kani, kani::stub(crate::decode::lzma::DecoderState::process_next_inner, crate::decode::lzma::verif_h::abs_symbol))]
pub fn partial_p1_r3_l5_20_3() {
    partial_step::<1, 3, 5, 20, 3>()
}

//@ harness props=C05,C15 tier=thorough unwind=22 unwindset=process_mode:7 mem_gb=4 timeout=900 native=no opt_covers=commit_and_carry,nothing_committed
//@ bound: one process_stream call: carry 1 bytes, reader 3 bytes, symbol lengths 19,2,20(,20); contents/range/code symbolic; abstract symbols
#[cfg_attr(kani, kani::proof)]
#[cfg_attr(kani, kani::stub(std::fmt::format, crate::verif_common::stub_format))]
#[cfg_attr(kani, kani::stub(std::io::Error::is_interrupted, crate::verif_common::stub_not_interrupted))]
#[cfg_attr(kani, kani::stub(crate::decode::lzma::DecoderState::process_next_inner, crate::decode::lzma::verif_h::abs_symbol))]
pub fn partial_p1_r3_l19_2_20() {
    partial_step::<1, 3, 19, 2, 20>()
}

//@ harness props=C05,C15 tier=thorough unwind=22 unwindset=process_mode:7 mem_gb=4 timeout=900 native=no opt_covers=commit_and_carry,nothing_committed
//@ bound: one process_stream call: carry 1 bytes, reader 8 bytes, symbol lengths 1,1,1(,20); contents/range/code symbolic; abstract symbols
#[cfg_attr(kani, kani::proof)]
#[cfg_attr(kani, kani::stub(std::fmt::format, crate::verif_common::stub_format))]
#[cfg_attr(kani, kani::stub(std::io::Error::is_interrupted, crate::verif_common::stub_not_interrupted))]
#[cfg_attr(kani, kani::stub(crate::decode::lzma::DecoderState::process_next_inner, crate::decode::lzma::verif_h::abs_symbol))]
pub fn partial_p1_r8_l1_1_1() {
    partial_step::<1, 8, 1, 1, 1>()
}

//@ harness props=C05,C15 tier=thorough unwind=22 unwindset=process_mode:7 mem_gb=4 timeout=900 native=no opt_covers=commit_and_carry,nothing_committed
//@ bound: one process_stream call: carry 1 bytes, reader 8 bytes, symbol lengths 2,19,1(,20); contents/range/code symbolic; abstract symbols
#[cfg_attr(kani, kani::proof)]
#[cfg_attr(kani, kani::stub(std::fmt::format, crate::verif_common::stub_format))]
#[cfg_attr(kani, kani::stub(std::io::Error::is_interrupted, crate::verif_common::stub_not_interrupted))]
#[cfg_attr(kani, kani::stub(crate::decode::lzma::DecoderState::process_next_inner, crate::decode::lzma::verif_h::abs_symbol))]
pub fn partial_p1_r8_l2_19_1() {
    partial_step::<1, 8, 2, 19, 1>()
}

//@ harness props=C05,C15 tier=thorough unwind=22 unwindset=process_mode:7 mem_gb=4 timeout=900 native=no opt_covers=commit_and_carry,nothing_committed
//@ bound: one process_stream call: carry 1 bytes, reader 8 bytes, symbol lengths 20,1,1(,20); contents/range/code symbolic; abstract symbols
#[cfg_attr(kani, kani::proof)]
#[cfg_attr(kani, kani::stub(std::fmt::format, crate::verif_common::stub_format))]
#[cfg_attr(kani, kani::stub(std::io::Error::is_interrupted, crate::verif_common::stub_not_interrupted))]
#[cfg_attr(kani, kani::stub(crate::decode::lzma::DecoderState::process_next_inner, crate::decode::lzma::verif_h::abs_symbol))]
pub fn partial_p1_r8_l20_1_1() {
    partial_step::<1, 8, 20, 1, 1>()
}

//@ harness props=C05,C15 tier=thorough unwind=22 unwindset=process_mode:7 mem_gb=4 timeout=900 native=no opt_covers=commit_and_carry,nothing_committed
//@ bound: one process_stream call: carry 1 bytes, reader 8 bytes, symbol lengths 5,20,3(,20); contents/range/code symbolic; abstract symbols
#[cfg_attr(kani, kani::proof)]
#[cfg_attr(kani, kani::stub(std::fmt::format, crate::verif_common::stub_format))]
#[cfg_attr(kani, kani::stub(std::io::Error::is_interrupted, crate::verif_common::stub_not_interrupted))]
#[cfg_attr(kani, kani::stub(crate::decode::lzma::DecoderState::process_next_inner, crate::decode::lzma::verif_h::abs_symbol))]
pub fn partial_p1_r8_l5_20_3() {
    partial_step::<1, 8, 5, 20, 3>()
}

//@ harness props=C05,C15 tier=thorough unwind=22 unwindset=process_mode:7 mem_gb=4 timeout=900 native=no opt_covers=commit_and_carry,nothing_committed
//@ bound: one process_stream call: carry 1 bytes, reader 8 bytes, symbol lengths 19,2,20(,20); contents/range/code symbolic; abstract symbols
#[cfg_attr(kani, kani::proof)]
#[cfg_attr(kani, kani::stub(std::fmt::format, crate::verif_common::stub_format))]
#[cfg_attr(kani, kani::stub(std::io::Error::is_interrupted, crate::verif_common::stub_not_interrupted))]
#[cfg_attr(kani, kani::stub(crate::decode::lzma::DecoderState::process_next_inner, crate::decode::lzma::verif_h::abs_symbol))]
pub fn partial_p1_r8_l19_2_20() {
    partial_step::<1, 8, 19, 2, 20>()
}

//@ harness props=C05,C15 tier=thorough unwind=22 unwindset=process_mode:7 mem_gb=4 timeout=900 native=no opt_covers=commit_and_carry,nothing_committed
//@ bound: one process_stream call: carry 2 bytes, reader 0 bytes, symbol lengths 1,1,1(,20); contents/range/code symbolic; abstract symbols
#[cfg_attr(kani, kani::proof)]
#[cfg_attr(kani, kani::stub(std::fmt::format, crate::verif_common::stub_format))]
#[cfg_attr(kani, kani::stub(std::io::Error::is_interrupted, crate::verif_common::stub_not_interrupted))]
#[cfg_attr(kani, kani::stub(crate::decode::lzma::DecoderState::process_next_inner, crate::decode::lzma::verif_h::abs_symbol))]
pub fn partial_p2_r0_l1_1_1() {
    partial_step::<2, 0, 1, 1, 1>()
}

//@ harness props=C05,C15 tier=thorough unwind=22 unwindset=process_mode:7 mem_gb=4 timeout=900 native=no opt_covers=commit_and_carry,nothing_committed
//@ bound: one process_stream call: carry 2 bytes, reader 0 bytes, symbol lengths 2,19,1(,20); contents/range/code symbolic; abstract symbols
#[cfg_attr(kani, kani::proof)]
#[cfg_attr(kani, kani::stub(std::fmt::format, crate::verif_common::stub_format))]
#[cfg_attr(kani, kani::stub(std::io::Error::is_interrupted, crate::verif_common::stub_not_interrupted))]
#[cfg_attr(kani, kani::stub(crate::decode::lzma::DecoderState::process_next_inner, crate::decode::lzma::verif_h::abs_symbol))]
pub fn partial_p2_r0_l2_19_1() {
    partial_step::<2, 0, 2, 19, 1>()
}

//@ harness props=C05,C15 tier=thorough unwind=22 unwindset=process_mode:7 mem_gb=4 timeout=900 native=no opt_covers=commit_and_carry,nothing_committed
//@ bound: one process_stream call: carry 2 bytes, reader 0 bytes, symbol lengths 20,1,1(,20); contents/range/code symbolic; abstract symbols
#[cfg_attr(kani, kani::proof)]
#[cfg_attr(kani, kani::stub(std::fmt::format, crate::verif_common::stub_format))]
#[cfg_attr(kani, kani::stub(std::io::Error::is_interrupted, crate::verif_common::stub_not_interrupted))]
#[cfg_attr(kani, kani::stub(crate::decode::lzma::DecoderState::process_next_inner, crate::decode::lzma::verif_h::abs_symbol))]
pub fn partial_p2_r0_l20_1_1() {
    partial_step::<2, 0, 20, 1, 1>()
}

//@ harness props=C05,C15 tier=thorough unwind=22 unwindset=process_mode:7 mem_gb=4 timeout=900 native=no opt_covers=commit_and_carry,nothing_committed
//@ bound: one process_stream call: carry 2 bytes, reader 0 bytes, symbol lengths 5,20,3(,20); contents/range/code symbolic; abstract symbols
#[cfg_attr(kani, kani::proof)]
#[cfg_attr(kani, kani::stub(std::fmt::format, crate::verif_common::stub_format))]
#[cfg_attr(kani, kani::stub(std::io::Error::is_interrupted, crate::verif_common::stub_not_interrupted))]
#[cfg_attr(kani, kani::stub(crate::decode::lzma::DecoderState::process_next_inner, crate::decode::lzma::verif_h::abs_symbol))]
pub fn partial_p2_r0_l5_20_3() {
    partial_step::<2, 0, 5, 20, 3>()
}

//@ harness props=C05,C15 tier=thorough unwind=22 unwindset=process_mode:7 mem_gb=4 timeout=900 native=no opt_covers=commit_and_carry,nothing_committed
//@ bound: one process_stream call: carry 2 bytes, reader 0 bytes, symbol lengths 19,2,20(,20); contents/range/code symbolic; abstract symbols
#[cfg_attr(kani, kani::proof)]
#[cfg_attr(kani, kani::stub(std::fmt::format, crate::verif_common::stub_format))]
#[cfg_attr(kani, kani::stub(std::io::Error::is_interrupted, crate::verif_common::stub_not_interrupted))]
#[cfg_attr(kani, kani::stub(crate::decode::lzma::DecoderState::process_next_inner, crate::decode::lzma::verif_h::abs_symbol))]
pub fn partial_p2_r0_l19_2_20() {
    partial_step::<2, 0, 19, 2, 20>()
}

//@ harness props=C05,C15 tier=thorough unwind=22 unwindset=process_mode:7 mem_gb=4 timeout=900 native=no opt_covers=commit_and_carry,nothing_committed
//@ bound: one process_stream call: carry 2 bytes, reader 1 bytes, symbol lengths 1,1,1(,20); contents/range/code symbolic; abstract symbols
#[cfg_attr(kani, kani::proof)]
#[cfg_attr(kani, kani::stub(std::fmt::format, crate::verif_common::stub_format))]
#[cfg_attr(kani, kani::stub(std::io::Error::is_interrupted, crate::verif_common::stub_not_interrupted))]
#[cfg_attr(kani, kani::stub(crate::decode::lzma::DecoderState::process_next_inner, crate::decode::lzma::verif_h::abs_symbol))]
pub fn partial_p2_r1_l1_1_1() {
    partial_step::<2, 1, 1, 1, 1>()
}

//@ harness props=C05,C15 tier=thorough unwind=22 unwindset=process_mode:7 mem_gb=4 timeout=900 native=no opt_covers=commit_and_carry,nothing_committed
//@ bound: one process_stream call: carry 2 bytes, reader 1 bytes, symbol lengths 2,19,1(,20); contents/range/code symbolic; abstract symbols
#[cfg_attr(kani, kani::proof)]
#[cfg_attr(kani, kani::stub(std::fmt::format, crate::verif_common::stub_format))]
#[cfg_attr(kani, kani::stub(std::io::Error::is_interrupted, crate::verif_common::stub_not_interrupted))]
#[cfg_attr(kani, kani::stub(crate::decode::lzma::DecoderState::process_next_inner, crate::decode::lzma::verif_h::abs_symbol))]
pub fn partial_p2_r1_l2_19_1() {
    partial_step::<2, 1, 2, 19, 1>()
}

//@ harness props=C05,C15 tier=thorough unwind=22 unwindset=process_mode:7 mem_gb=4 timeout=900 native=no opt_covers=commit_and_carry,nothing_committed
//@ bound: one process_stream call: carry 2 bytes, reader 1 bytes, symbol lengths 20,1,1(,20); contents/range/code symbolic; abstract symbols
#[cfg_attr(kani, kani::proof)]
#[cfg_attr(kani, kani::stub(std::fmt::format, crate::verif_common::stub_format))]
#[cfg_attr(kani, kani::stub(std::io::Error::is_interrupted, crate::verif_common::stub_not_interrupted))]
#[cfg_attr(kani, kani::stub(crate::decode::lzma::DecoderState::process_next_inner, crate::decode::lzma::verif_h::abs_symbol))]
pub fn partial_p2_r1_l20_1_1() {
    partial_step::<2, 1, 20, 1, 1>()
}

//@ harness props=C05,C15 tier=thorough unwind=22 unwindset=process_mode:7 mem_gb=4 timeout=900 native=no opt_covers=commit_and_carry,nothing_committed
//@ bound: one process_stream call: carry 2 bytes, reader 1 bytes, symbol lengths 5,20,3(,20); contents/range/code symbolic; abstract symbols
#[cfg_attr(kani, kani::proof)]
#[cfg_attr(kani, kani::stub(std::fmt::format, crate::verif_common::stub_format))]
#[cfg_attr(kani, kani::stub(std::io::Error::is_interrupted, crate::verif_common::stub_not_interrupted))]
#[cfg_attr(kani, kani::stub(crate::decode::lzma::DecoderState::process_next_inner, crate::decode::lzma::verif_h::abs_symbol))]
pub fn partial_p2_r1_l5_20_3() {
    partial_step::<2, 1, 5, 20, 3>()
}

//@ harness props=C05,C15 tier=thorough unwind=22 unwindset=process_mode:7 mem_gb=4 timeout=900 native=no opt_covers=commit_and_carry,nothing_committed
//@ bound: one process_stream call: carry 2 bytes, reader 1 bytes, symbol lengths 19,2,20(,20); contents/range/code symbolic; abstract symbols
#[cfg_attr(kani, kani::proof)]
#[cfg_attr(kani, kani::stub(std::fmt::format, crate::verif_common::stub_format))]
#[cfg_attr(kani, kani::stub(std::io::Error::is_interrupted, crate::verif_common::stub_not_interrupted))]
#[cfg_attr(kani, kani::stub(crate::decode::lzma::DecoderState::process_next_inner, crate::decode::lzma::verif_h::abs_symbol))]
pub fn partial_p2_r1_l19_2_20() {
    partial_step::<2, 1, 19, 2, 20>()
}

//@ harness props=C05,C15 tier=thorough unwind=22 unwindset=process_mode:7 mem_gb=4 timeout=900 native=no opt_covers=commit_and_carry,nothing_committed
//@ bound: one process_stream call: carry 2 bytes, reader 3 bytes, symbol lengths 2,19,1(,20); contents/range/code symbolic; abstract symbols
#[cfg_attr(kani, kani::proof)]
#[cfg_attr(kani, kani::stub(std::fmt::format, crate::verif_common::stub_format))]
#[cfg_attr(kani, kani::stub(std::io::Error::is_interrupted, crate::verif_common::stub_not_interrupted))]
#[cfg_attr(kani, kani::stub(crate::decode::lzma::DecoderState::process_next_inner, crate::decode::lzma::verif_h::abs_symbol))]
pub fn partial_p2_r3_l2_19_1() {
    partial_step::<2, 3, 2, 19, 1>()
}

//@ harness props=C05,C15 tier=thorough unwind=22 unwindset=process_mode:7 mem_gb=4 timeout=900 native=no opt_covers=commit_and_carry,nothing_committed
//@ bound: one process_stream call: carry 2 bytes, reader 3 bytes, symbol lengths 20,1,1(,20); contents/range/code symbolic; abstract symbols
#[cfg_attr(kani, kani::proof)]
#[cfg_attr(kani, kani::stub(std::fmt::format, crate::verif_common::stub_format))]
#[cfg_attr(kani, kani::stub(std::io::Error::is_interrupted, crate::verif_common::stub_not_interrupted))]
#[cfg_attr(kani, kani::stub(crate::decode::lzma::DecoderState::process_next_inner, crate::decode::lzma::verif_h::abs_symbol))]
pub fn partial_p2_r3_l20_1_1() {
    partial_step::<2, 3, 20, 1, 1>()
}

//@ harness props=C05,C15 tier=thorough unwind=22 unwindset=process_mode:7 mem_gb=4 timeout=900 native=no opt_covers=commit_and_carry,nothing_committed
//@ bound: one process_stream call: carry 2 bytes, reader 3 bytes, symbol lengths 5,20,3(,20); contents/range/code symbolic; abstract symbols
#[cfg_attr(kani, kani::proof)]
#[cfg_attr(kani, kani::stub(std::fmt::format, crate::verif_common::stub_format))]
#[cfg_attr(kani, kani::stub(std::io::Error::is_interrupted, crate::verif_common::stub_not_interrupted))]
#[cfg_attr(kani, kani::stub(crate::decode::lzma::DecoderState::process_next_inner, crate::decode::lzma::verif_h::abs_symbol))]
pub fn partial_p2_r3_l5_20_3() {
    partial_step::<2, 3, 5, 20, 3>()
}

//@ harness props=C05,C15 tier=thorough unwind=22 unwindset=process_mode:7 mem_gb=4 timeout=900 native=no opt_covers=commit_and_carry,nothing_committed
//@ bound: one process_stream call: carry 2 bytes, reader 3 bytes, symbol lengths 19,2,20(,20); contents/range/code symbolic; abstract symbols
#[cfg_attr(kani, kani::proof)]
#[cfg_attr(kani, kani::stub(std::fmt::format, crate::verif_common::stub_format))]
#[cfg_attr(kani, kani::stub(std::io::Error::is_interrupted, crate::verif_common::stub_not_interrupted))]
#[cfg_attr(kani, kani::stub(crate::decode::lzma::DecoderState::process_next_inner, crate::decode::lzma::verif_h::abs_symbol))]
pub fn partial_p2_r3_l19_2_20() {
    partial_step::<2, 3, 19, 2, 20>()
}

//@ harness props=C05,C15 tier=thorough unwind=22 unwindset=process_mode:7 mem_gb=4 timeout=900 native=no opt_covers=commit_and_carry,nothing_committed
//@ bound: one process_stream call: carry 2 bytes, reader 8 bytes, symbol lengths 1,1,1(,20); contents/range/code symbolic; abstract symbols
#[cfg_attr(kani, kani::proof)]
#[cfg_attr(kani, kani::stub(std::fmt::format, crate::verif_common::stub_format))]
#[cfg_attr(kani, kani::stub(std::io::Error::is_interrupted, crate::verif_common::stub_not_interrupted))]
#[cfg_attr(kani, kani::stub(crate::decode::lzma::DecoderState::process_next_inner, crate::decode::lzma::verif_h::abs_symbol))]
pub fn partial_p2_r8_l1_1_1() {
    partial_step::<2, 8, 1, 1, 1>()
}

//@ harness props=C05,C15 tier=thorough unwind=22 unwindset=process_mode:7 mem_gb=4 timeout=900 native=no opt_covers=commit_and_carry,nothing_committed
//@ bound: one process_stream call: carry 2 bytes, reader 8 bytes, symbol lengths 2,19,1(,20); contents/range/code symbolic; abstract symbols
#[cfg_attr(kani, kani::proof)]
#[cfg_attr(kani, kani::stub(std::fmt::format, crate::verif_common::stub_format))]
#[cfg_attr(kani, kani::stub(std::io::Error::is_interrupted, crate::verif_common::stub_not_interrupted))]
#[cfg_attr(kani, kani::stub(crate::decode::lzma::DecoderState::process_next_inner, crate::decode::lzma::verif_h::abs_symbol))]
pub fn partial_p2_r8_l2_19_1() {
    partial_step::<2, 8, 2, 19, 1>()
}

//@ harness props=C05,C15 tier=thorough unwind=22 unwindset=process_mode:7 mem_gb=4 timeout=900 native=no opt_covers=commit_and_carry,nothing_committed
//@ bound: one process_stream call: carry 2 bytes, reader 8 bytes, symbol lengths 20,1,1(,20); contents/range/code symbolic; abstract symbols
#[cfg_attr(kani, kani::proof)]
#[cfg_attr(kani, kani::stub(std::fmt::format, crate::verif_common::stub_format))]
#[cfg_attr(kani, kani::stub(std::io::Error::is_interrupted, crate::verif_common::stub_not_interrupted))]
#[cfg_attr(kani, kani::stub(crate::decode::lzma::DecoderState::process_next_inner, crate::decode::lzma::verif_h::abs_symbol))]
pub fn partial_p2_r8_l20_1_1() {
    partial_step::<2, 8, 20, 1, 1>()
}

//@ harness props=C05,C15 tier=thorough unwind=22 unwindset=process_mode:7 mem_gb=4 timeout=900 native=no opt_covers=commit_and_carry,nothing_committed
//@ bound: one process_stream call: carry 2 bytes, reader 8 bytes, symbol lengths 5,20,3(,20); contents/range/code symbolic; abstract symbols
#[cfg_attr(kani, kani::proof)]
#[cfg_attr(kani, kani::stub(std::fmt::format, crate::verif_common::stub_format))]
#[cfg_attr(kani, kani::stub(std::io::Error::is_interrupted, crate::verif_common::stub_not_interrupted))]
#[cfg_attr(kani, kani::stub(crate::decode::lzma::DecoderState::process_next_inner, crate::decode::lzma::verif_h::abs_symbol))]
pub fn partial_p2_r8_l5_20_3() {
    partial_step::<2, 8, 5, 20, 3>()
}

//@ harness props=C05,C15 tier=thorough unwind=22 unwindset=process_mode:7 mem_gb=4 timeout=900 native=no opt_covers=commit_and_carry,nothing_committed
//@ bound: one process_stream call: carry 2 bytes, reader 8 bytes, symbol lengths 19,2,20(,20); contents/range/code symbolic; abstract symbols
#[cfg_attr(kani, kani::proof)]
#[cfg_attr(kani, kani::stub(std::fmt::format, crate::verif_common::stub_format))]
#[cfg_attr(kani, kani::stub(std::io::Error::is_interrupted, crate::verif_common::stub_not_interrupted))]
#[cfg_attr(kani, kani::stub(crate::decode::lzma::DecoderState::process_next_inner, crate::decode::lzma::verif_h::abs_symbol))]
pub fn partial_p2_r8_l19_2_20() {
    partial_step::<2, 8, 19, 2, 20>()
}

//@ harness props=C05,C15 tier=thorough unwind=22 unwindset=process_mode:7 mem_gb=4 timeout=900 native=no opt_covers=commit_and_carry,nothing_committed
//@ bound: one process_stream call: carry 5 bytes, reader 0 bytes, symbol lengths 1,1,1(,20); contents/range/code symbolic; abstract symbols
#[cfg_attr(kani, kani::proof)]
#[cfg_attr(kani, kani::stub(std::fmt::format, crate::verif_common::stub_format))]
#[cfg_attr(kani, kani::stub(std::io::Error::is_interrupted, crate::verif_common::stub_not_interrupted))]
#[cfg_attr(kani, kani::stub(crate::decode::lzma::DecoderState::process_next_inner, crate::decode::lzma::verif_h::abs_symbol))]
pub fn partial_p5_r0_l1_1_1() {
    partial_step::<5, 0, 1, 1, 1>()
}

//@ harness props=C05,C15 tier=thorough unwind=22 unwindset=process_mode:7 mem_gb=4 timeout=900 native=no opt_covers=commit_and_carry,nothing_committed
//@ bound: one process_stream call: carry 5 bytes, reader 0 bytes, symbol lengths 2,19,1(,20); contents/range/code symbolic; abstract symbols
#[cfg_attr(kani, kani::proof)]
#[cfg_attr(kani, kani::stub(std::fmt::format, crate::verif_common::stub_format))]
#[cfg_attr(kani, kani::stub(std::io::Error::is_interrupted, crate::verif_common::stub_not_interrupted))]
#[cfg_attr(kani, kani::stub(crate::decode::lzma::DecoderState::process_next_inner, crate::decode::lzma::verif_h::abs_symbol))]
pub fn partial_p5_r0_l2_19_1() {
    partial_step::<5, 0, 2, 19, 1>()
}

//@ harness props=C05,C15 tier=thorough unwind=22 unwindset=process_mode:7 mem_gb=4 timeout=900 native=no opt_covers=commit_and_carry,nothing_committed
//@ bound: one process_stream call: carry 5 bytes, reader 0 bytes, symbol lengths 20,1,1(,20); contents/range/code symbolic; abstract symbols
#[cfg_attr(kani, kani::proof)]
#[cfg_attr(kani, kani::stub(std::fmt::format, crate::verif_common::stub_format))]
#[cfg_attr(kani, kani::stub(std::io::Error::is_interrupted, crate::verif_common::stub_not_interrupted))]
#[cfg_attr(kani, kani::stub(crate::decode::lzma::DecoderState::process_next_inner, crate::decode::lzma::verif_h::abs_symbol))]
pub fn partial_p5_r0_l20_1_1() {
    partial_step::<5, 0, 20, 1, 1>()
}

//@ harness props=C05,C15 tier=thorough unwind=22 unwindset=process_mode:7 mem_gb=4 timeout=900 native=no opt_covers=commit_and_carry,nothing_committed
//@ bound: one process_stream call: carry 5 bytes, reader 0 bytes, symbol lengths 5,20,3(,20); contents/range/code symbolic; abstract symbols
#[cfg_attr(kani, kani::proof)]
#[cfg_attr(kani, kani::stub(std::fmt::format, crate::verif_common::stub_format))]
#[cfg_attr(kani, kani::stub(std::io::Error::is_interrupted, crate::verif_common::stub_not_interrupted))]
#[cfg_attr(kani, kani::stub(crate::decode::lzma::DecoderState::process_next_inner, crate::decode::lzma::verif_h::abs_symbol))]
pub fn partial_p5_r0_l5_20_3() {
    partial_step::<5, 0, 5, 20, 3>()
}

//@ harness props=C05,C15 tier=thorough unwind=22 unwindset=process_mode:7 mem_gb=4 timeout=900 native=no opt_covers=commit_and_carry,nothing_committed
//@ bound: one process_stream call: carry 5 bytes, reader 0 bytes, symbol lengths 19,2,20(,20); contents/range/code symbolic; abstract symbols
#[cfg_attr(kani, kani::proof)]
#[cfg_attr(kani, kani::stub(std::fmt::format, crate::verif_common::stub_format))]
#[cfg_attr(kani, kani::stub(std::io::Error::is_interrupted, crate::verif_common::stub_not_interrupted))]
#[cfg_attr(kani, kani::stub(crate::decode::lzma::DecoderState::process_next_inner, crate::decode::lzma::verif_h::abs_symbol))]
pub fn partial_p5_r0_l19_2_20() {
    partial_step::<5, 0, 19, 2, 20>()
}

//@ harness props=C05,C15 tier=thorough unwind=22 unwindset=process_mode:7 mem_gb=4 timeout=900 native=no opt_covers=commit_and_carry,nothing_committed
//@ bound: one process_stream call: carry 5 bytes, reader 1 bytes, symbol lengths 1,1,1(,20); contents/range/code symbolic; abstract symbols
#[cfg_attr(kani, kani::proof)]
#[cfg_attr(kani, kani::stub(std::fmt::format, crate::verif_common::stub_format))]
#[cfg_attr(kani, kani::stub(std::io::Error::is_interrupted, crate::verif_common::stub_not_interrupted))]
#[cfg_attr(kani, kani::stub(crate::decode::lzma::DecoderState::process_next_inner, crate::decode::lzma::verif_h::abs_symbol))]
pub fn partial_p5_r1_l1_1_1() {
    partial_step::<5, 1, 1, 1, 1>()
}

//@ harness props=C05,C15 tier=thorough unwind=22 unwindset=process_mode:7 mem_gb=4 timeout=900 native=no opt_covers=commit_and_carry,nothing_committed
//@ bound: one process_stream call: carry 5 bytes, reader 1 bytes, symbol lengths 2,19,1(,20); contents/range/code symbolic; abstract symbols
#[cfg_attr(kani, kani::proof)]
#[cfg_attr(kani, kani::stub(std::fmt::format, crate::verif_common::stub_format))]
#[cfg_attr(kani, kani::stub(std::io::Error::is_interrupted, crate::verif_common::stub_not_interrupted))]
#[cfg_attr(kani, kani::stub(crate::decode::lzma::DecoderState::process_next_inner, crate::decode::lzma::verif_h::abs_symbol))]
pub fn partial_p5_r1_l2_19_1() {
    partial_step::<5, 1, 2, 19, 1>()
}

//@ harness props=C05,C15 tier=thorough unwind=22 unwindset=process_mode:7 mem_gb=4 timeout=900 native=no opt_covers=commit_and_carry,nothing_committed
//@ bound: one process_stream call: carry 5 bytes, reader 1 bytes, symbol lengths 20,1,1(,20); contents/range/code symbolic; abstract symbols
#[cfg_attr(kani, kani::proof)]
#[cfg_attr(kani, kani::stub(std::fmt::format, crate::verif_common::stub_format))]
#[cfg_attr(kani, kani::stub(std::io::Error::is_interrupted, crate::verif_common::stub_not_interrupted))]
#[cfg_attr(kani, kani::stub(crate::decode::lzma::DecoderState::process_next_inner, crate::decode::lzma::verif_h::abs_symbol))]
pub fn partial_p5_r1_l20_1_1() {
    partial_step::<5, 1, 20, 1, 1>()
}

//@ harness props=C05,C15 tier=thorough unwind=22 unwindset=process_mode:7 mem_gb=4 timeout=900 native=no opt_covers=commit_and_carry,nothing_committed
//@ bound: one process_stream call: carry 5 bytes, reader 1 bytes, symbol lengths 5,20,3(,20); contents/range/code symbolic; abstract symbols
#[cfg_attr(kani, kani::proof)]
#[cfg_attr(kani, kani::stub(std::fmt::format, crate::verif_common::stub_format))]
#[cfg_attr(kani, kani::stub(std::io::Error::is_interrupted, crate::verif_common::stub_not_interrupted))]
#[cfg_attr(kani, kani::stub(crate::decode::lzma::DecoderState::process_next_inner, crate::decode::lzma::verif_h::abs_symbol))]
pub fn partial_p5_r1_l5_20_3() {
    partial_step::<5, 1, 5, 20, 3>()
}

//@ harness props=C05,C15 tier=thorough unwind=22 unwindset=process_mode:7 mem_gb=4 timeout=900 native=no opt_covers=commit_and_carry,nothing_committed
//@ bound: one process_stream call: carry 5 bytes, reader 1 bytes, symbol lengths 19,2,20(,20); contents/range/code symbolic; abstract symbols
#[cfg_attr(kani, kani::proof)]
#[cfg_attr(kani, kani::stub(std::fmt::format, crate::verif_common::stub_format))]
#[cfg_attr(kani, kani::stub(std::io::Error::is_interrupted, crate::verif_common::stub_not_interrupted))]
#[cfg_attr(kani, kani::stub(crate::decode::lzma::DecoderState::process_next_inner, crate::decode::lzma::verif_h::abs_symbol))]
pub fn partial_p5_r1_l19_2_20() {
    partial_step::<5, 1, 19, 2, 20>()
}

//@ harness props=C05,C15 tier=thorough unwind=22 unwindset=process_mode:7 mem_gb=4 timeout=900 native=no opt_covers=commit_and_carry,nothing_committed
//@ bound: one process_stream call: carry 5 bytes, reader 3 bytes, symbol lengths 1,1,1(,20); contents/range/code symbolic; abstract symbols
#[cfg_attr(kani, kani::proof)]
#[cfg_attr(kani, kani::stub(std::fmt::format, crate::verif_common::stub_format))]
#[cfg_attr(kani, kani::stub(std::io::Error::is_interrupted, crate::verif_common::stub_not_interrupted))]
#[cfg_attr(kani, kani::stub(crate::decode::lzma::DecoderState::process_next_inner, crate::decode::lzma::verif_h::abs_symbol))]
pub fn partial_p5_r3_l1_1_1() {
    partial_step::<5, 3, 1, 1, 1>()
}

//@ harness props=C05,C15 tier=thorough unwind=22 unwindset=process_mode:7 mem_gb=4 timeout=900 native=no opt_covers=commit_and_carry,nothing_committed
//@ bound: one process_stream call: carry 5 bytes, reader 3 bytes, symbol lengths 2,19,1(,20); contents/range/code symbolic; abstract symbols
#[cfg_attr(kani, kani::proof)]
#[cfg_attr(kani, kani::stub(std::fmt::format, crate::verif_common::stub_format))]
#[cfg_attr(kani, kani::stub(std::io::Error::is_interrupted, crate::verif_common::stub_not_interrupted))]
#[cfg_attr(kani, kani::stub(crate::decode::lzma::DecoderState::process_next_inner, crate::decode::lzma::verif_h::abs_symbol))]
pub fn partial_p5_r3_l2_19_1() {
    partial_step::<5, 3, 2, 19, 1>()
}

//@ harness props=C05,C15 tier=thorough unwind=22 unwindset=process_mode:7 mem_gb=4 timeout=900 native=no opt_covers=commit_and_carry,nothing_committed
//@ bound: one process_stream call: carry 5 bytes, reader 3 bytes, symbol lengths 20,1,1(,20); contents/range/code symbolic; abstract symbols
#[cfg_attr(kani, kani::proof)]
#[cfg_attr(kani, kani::stub(std::fmt::format, crate::verif_common::stub_format))]
#[cfg_attr(kani, kani::stub(std::io::Error::is_interrupted, crate::verif_common::stub_not_interrupted))]
#[cfg_attr(kani, kani::stub(crate::decode::lzma::DecoderState::process_next_inner, crate::decode::lzma::verif_h::abs_symbol))]
pub fn partial_p5_r3_l20_1_1() {
    partial_step::<5, 3, 20, 1, 1>()
}

//@ harness props=C05,C15 tier=thorough unwind=22 unwindset=process_mode:7 mem_gb=4 timeout=900 native=no opt_covers=commit_and_carry,nothing_committed
//@ bound: one process_stream call: carry 5 bytes, reader 3 bytes, symbol lengths 5,20,3(,20); contents/range/code symbolic; abstract symbols
#[cfg_attr(kani, kani::proof)]
#[cfg_attr(kani, kani::stub(std::fmt::format, crate::verif_common::stub_format))]
#[cfg_attr(kani, kani::stub(std::io::Error::is_interrupted, crate::verif_common::stub_not_interrupted))]
#[cfg_attr(kani, kani::stub(crate::decode::lzma::DecoderState::process_next_inner, crate::decode::lzma::verif_h::abs_symbol))]
pub fn partial_p5_r3_l5_20_3() {
    partial_step::<5, 3, 5, 20, 3>()
}

//@ harness props=C05,C15 tier=thorough unwind=22 unwindset=process_mode:7 mem_gb=4 timeout=900 native=no opt_covers=commit_and_carry,nothing_committed
//@ bound: one process_stream call: carry 5 bytes, reader 3 bytes, symbol lengths 19,2,20(,20); contents/range/code symbolic; abstract symbols
#[cfg_attr(kani, kani::proof)]
#[cfg_attr(kani, kani::stub(std::fmt::format, crate::verif_common::stub_format))]
#[cfg_attr(kani, kani::stub(std::io::Error::is_interrupted, crate::verif_common::stub_not_interrupted))]
#[cfg_attr(kani, kani::stub(crate::decode::lzma::DecoderState::process_next_inner, crate::decode::lzma::verif_h::abs_symbol))]
pub fn partial_p5_r3_l19_2_20() {
    partial_step::<5, 3, 19, 2, 20>()
}

//@ harness props=C05,C15 tier=thorough unwind=22 unwindset=process_mode:7 mem_gb=4 timeout=900 native=no opt_covers=commit_and_carry,nothing_committed
//@ bound: one process_stream call: carry 5 bytes, reader 8 bytes, symbol lengths 1,1,1(,20); contents/range/code symbolic; abstract symbols
#[cfg_attr(kani, kani::proof)]
#[cfg_attr(kani, kani::stub(std::fmt::format, crate::verif_common::stub_format))]
#[cfg_attr(kani, kani::stub(std::io::Error::is_interrupted, crate::verif_common::stub_not_interrupted))]
#[cfg_attr(kani, kani::stub(crate::decode::lzma::DecoderState::process_next_inner, crate::decode::lzma::verif_h::abs_symbol))]
pub fn partial_p5_r8_l1_1_1() {
    partial_step::<5, 8, 1, 1, 1>()
}

//@ harness props=C05,C15 tier=thorough unwind=22 unwindset=process_mode:7 mem_gb=4 timeout=900 native=no opt_covers=commit_and_carry,nothing_committed
//@ bound: one process_stream call: carry 5 bytes, reader 8 bytes, symbol lengths 2,19,1(,20); contents/range/code symbolic; abstract symbols
#[cfg_attr(kani, kani::proof)]
#[cfg_attr(kani, kani::stub(std::fmt::format, crate::verif_common::stub_format))]
#[cfg_attr(kani, kani::stub(std::io::Error::is_interrupted, crate::verif_common::stub_not_interrupted))]
#[cfg_attr(kani, kani::stub(crate::decode::lzma::DecoderState::process_next_inner, crate::decode::lzma::verif_h::abs_symbol))]
pub fn partial_p5_r8_l2_19_1() {
    partial_step::<5, 8, 2, 19, 1>()
}

//@ harness props=C05,C15 tier=thorough unwind=22 unwindset=process_mode:7 mem_gb=4 timeout=900 native=no opt_covers=commit_and_carry,nothing_committed
//@ bound: one process_stream call: carry 5 bytes, reader 8 bytes, symbol lengths 20,1,1(,20); contents/range/code symbolic; abstract symbols
#[cfg_attr(kani, kani::proof)]
#[cfg_attr(kani, kani::stub(std::fmt::format, crate::verif_common::stub_format))]
#[cfg_attr(kani, kani::stub(std::io::Error::is_interrupted, crate::verif_common::stub_not_interrupted))]
#[cfg_attr(kani, kani::stub(crate::decode::lzma::DecoderState::process_next_inner, crate::decode::lzma::verif_h::abs_symbol))]
pub fn partial_p5_r8_l20_1_1() {
    partial_step::<5, 8, 20, 1, 1>()
}

//@ harness props=C05,C15 tier=thorough unwind=22 unwindset=process_mode:7 mem_gb=4 timeout=900 native=no opt_covers=commit_and_carry,nothing_committed
//@ bound: one process_stream call: carry 5 bytes, reader 8 bytes, symbol lengths 5,20,3(,20); contents/range/code symbolic; abstract symbols
#[cfg_attr(kani, kani::proof)]
#[cfg_attr(kani, kani::stub(std::fmt::format, crate::verif_common::stub_format))]
#[cfg_attr(kani, kani::stub(std::io::Error::is_interrupted, crate::verif_common::stub_not_interrupted))]
#[cfg_attr(kani, kani::stub(crate::decode::lzma::DecoderState::process_next_inner, crate::decode::lzma::verif_h::abs_symbol))]
pub fn partial_p5_r8_l5_20_3() {
    partial_step::<5, 8, 5, 20, 3>()
}

//@ harness props=C05,C15 tier=thorough unwind=22 unwindset=process_mode:7 mem_gb=4 timeout=900 native=no opt_covers=commit_and_carry,nothing_committed
//@ bound: one process_stream call: carry 5 bytes, reader 8 bytes, symbol lengths 19,2,20(,20); contents/range/code symbolic; abstract symbols
#[cfg_attr(kani, kani::proof)]
#[cfg_attr(kani, kani::stub(std::fmt::format, crate::verif_common::stub_format))]
#[cfg_attr(kani, kani::stub(std::io::Error::is_interrupted, crate::verif_common::stub_not_interrupted))]
#[cfg_attr(kani, kani::stub(crate::decode::lzma::DecoderState::process_next_inner, crate::decode::lzma::verif_h::abs_symbol))]
pub fn partial_p5_r8_l19_2_20() {
    partial_step::<5, 8, 19, 2, 20>()
}

//@ harness props=C05,C15 tier=thorough unwind=22 unwindset=process_mode:7 mem_gb=4 timeout=900 native=no opt_covers=commit_and_carry,nothing_committed
//@ bound: one process_stream call: carry 10 bytes, reader 0 bytes, symbol lengths 1,1,1(,20); contents/range/code symbolic; abstract symbols
#[cfg_attr(kani, kani::proof)]
#[cfg_attr(kani, kani::stub(std::fmt::format, crate::verif_common::stub_format))]
#[cfg_attr(kani, kani::stub(std::io::Error::is_interrupted, crate::verif_common::stub_not_interrupted))]
#[cfg_attr(kani, kani::stub(crate::decode::lzma::DecoderState::process_next_inner, crate::decode::lzma::verif_h::abs_symbol))]
pub fn partial_p10_r0_l1_1_1() {
    partial_step::<10, 0, 1, 1, 1>()
}

//@ harness props=C05,C15 tier=thorough unwind=22 unwindset=process_mode:7 mem_gb=4 timeout=900 native=no opt_covers=commit_and_carry,nothing_committed
//@ bound: one process_stream call: carry 10 bytes, reader 0 bytes, symbol lengths 2,19,1(,20); contents/range/code symbolic; abstract symbols
#[cfg_attr(kani, kani::proof)]
#[cfg_attr(kani, kani::stub(std::fmt::format, crate::verif_common::stub_format))]
#[cfg_attr(kani, kani::stub(std::io::Error::is_interrupted, crate::verif_common::stub_not_interrupted))]
#[cfg_attr(kani, kani::stub(crate::decode::lzma::DecoderState::process_next_inner, crate::decode::lzma::verif_h::abs_symbol))]
pub fn partial_p10_r0_l2_19_1() {
    partial_step::<10, 0, 2, 19, 1>()
}

//@ harness props=C05,C15 tier=thorough unwind=22 unwindset=process_mode:7 mem_gb=4 timeout=900 native=no opt_covers=commit_and_carry,nothing_committed
//@ bound: one process_stream call: carry 10 bytes, reader 0 bytes, symbol lengths 20,1,1(,20); contents/range/code symbolic; abstract symbols
#[cfg_attr(kani, kani::proof)]
#[cfg_attr(kani, kani::stub(std::fmt::format, crate::verif_common::stub_format))]
#[cfg_attr(kani, kani::stub(std::io::Error::is_interrupted, crate::verif_common::stub_not_interrupted))]
#[cfg_attr(kani, kani::stub(crate::decode::lzma::DecoderState::process_next_inner, crate::decode::lzma::verif_h::abs_symbol))]
pub fn partial_p10_r0_l20_1_1() {
    partial_step::<10, 0, 20, 1, 1>()
}

//@ harness props=C05,C15 tier=thorough unwind=22 unwindset=process_mode:7 mem_gb=4 timeout=900 native=no opt_covers=commit_and_carry,nothing_committed
//@ bound: one process_stream call: carry 10 bytes, reader 0 bytes, symbol lengths 5,20,3(,20); contents/range/code symbolic; abstract symbols
#[cfg_attr(kani, kani::proof)]
#[cfg_attr(kani, kani::stub(std::fmt::format, crate::verif_common::stub_format))]
#[cfg_attr(kani, kani::stub(std::io::Error::is_interrupted, crate::verif_common::stub_not_interrupted))]
#[cfg_attr(kani, kani::stub(crate::decode::lzma::DecoderState::process_next_inner, crate::decode::lzma::verif_h::abs_symbol))]
pub fn partial_p10_r0_l5_20_3() {
    partial_step::<10, 0, 5, 20, 3>()
}

//@ harness props=C05,C15 tier=thorough unwind=22 unwindset=process_mode:7 mem_gb=4 timeout=900 native=no opt_covers=commit_and_carry,nothing_committed
//@ bound: one process_stream call: carry 10 bytes, reader 0 bytes, symbol lengths 19,2,20(,20); contents/range/code symbolic; abstract symbols
#[cfg_attr(kani, kani::proof)]
#[cfg_attr(kani, kani::stub(std::fmt::format, crate::verif_common::stub_format))]
#[cfg_attr(kani, kani::stub(std::io::Error::is_interrupted, crate::verif_common::stub_not_interrupted))]
#[cfg_attr(kani, kani::stub(crate::decode::lzma::DecoderState::process_next_inner, crate::decode::lzma::verif_h::abs_symbol))]
pub fn partial_p10_r0_l19_2_20() {
    partial_step::<10, 0, 19, 2, 20>()
}

//@ harness props=C05,C15 tier=thorough unwind=22 unwindset=process_mode:7 mem_gb=4 timeout=900 native=no opt_covers=commit_and_carry,nothing_committed
//@ bound: one process_stream call: carry 10 bytes, reader 1 bytes, symbol lengths 1,1,1(,20); contents/range/code symbolic; abstract symbols
#[cfg_attr(kani, kani::proof)]
#[cfg_attr(kani, kani::stub(std::fmt::format, crate::verif_common::stub_format))]
#[cfg_attr(kani, kani::stub(std::io::Error::is_interrupted, crate::verif_common::stub_not_interrupted))]
#[cfg_attr(kani, kani::stub(crate::decode::lzma::DecoderState::process_next_inner, crate::decode::lzma::verif_h::abs_symbol))]
pub fn partial_p10_r1_l1_1_1() {
    partial_step::<10, 1, 1, 1, 1>()
}

//@ harness props=C05,C15 tier=thorough unwind=22 unwindset=process_mode:7 mem_gb=4 timeout=900 native=no opt_covers=commit_and_carry,nothing_committed
//@ bound: one process_stream call: carry 10 bytes, reader 1 bytes, symbol lengths 2,19,1(,20); contents/range/code symbolic; abstract symbols
#[cfg_attr(kani, kani::proof)]
#[cfg_attr(kani, kani::stub(std::fmt::format, crate::verif_common::stub_format))]
#[cfg_attr(kani, kani::stub(std::io::Error::is_interrupted, crate::verif_common::stub_not_interrupted))]
#[cfg_attr(kani, kani::stub(crate::decode::lzma::DecoderState::process_next_inner, crate::decode::lzma::verif_h::abs_symbol))]
pub fn partial_p10_r1_l2_19_1() {
    partial_step::<10, 1, 2, 19, 1>()
}

//@ harness props=C05,C15 tier=thorough unwind=22 unwindset=process_mode:7 mem_gb=4 timeout=900 native=no opt_covers=commit_and_carry,nothing_committed
//@ bound: one process_stream call: carry 10 bytes, reader 1 bytes, symbol lengths 20,1,1(,20); contents/range/code symbolic; abstract symbols
#[cfg_attr(kani, kani::proof)]
#[cfg_attr(kani, kani::stub(std::fmt::format, crate::verif_common::stub_format))]
#[cfg_attr(kani, kani::stub(std::io::Error::is_interrupted, crate::verif_common::stub_not_interrupted))]
#[cfg_attr(kani, kani::stub(crate::decode::lzma::DecoderState::process_next_inner, crate::decode::lzma::verif_h::abs_symbol))]
pub fn partial_p10_r1_l20_1_1() {
    partial_step::<10, 1, 20, 1, 1>()
}

//@ harness props=C05,C15 tier=thorough unwind=22 unwindset=process_mode:7 mem_gb=4 timeout=900 native=no opt_covers=commit_and_carry,nothing_committed
//@ bound: one process_stream call: carry 10 bytes, reader 1 bytes, symbol lengths 5,20,3(,20); contents/range/code symbolic; abstract symbols
#[cfg_attr(kani, kani::proof)]
#[cfg_attr(kani, kani::stub(std::fmt::format, crate::verif_common::stub_format))]
#[cfg_attr(kani, kani::stub(std::io::Error::is_interrupted, crate::verif_common::stub_not_interrupted))]
#[cfg_attr(kani, kani::stub(crate::decode::lzma::DecoderState::process_next_inner, crate::decode::lzma::verif_h::abs_symbol))]
pub fn partial_p10_r1_l5_20_3() {
    partial_step::<10, 1, 5, 20, 3>()
}

//@ harness props=C05,C15 tier=thorough unwind=22 unwindset=process_mode:7 mem_gb=4 timeout=900 native=no opt_covers=commit_and_carry,nothing_committed
//@ bound: one process_stream call: carry 10 bytes, reader 1 bytes, symbol lengths 19,2,20(,20); contents/range/code symbolic; abstract symbols
#[cfg_attr(kani, kani::proof)]
#[cfg_attr(kani, kani::stub(std::fmt::format, crate::verif_common::stub_format))]
#[cfg_attr(kani, kani::stub(std::io::Error::is_interrupted, crate::verif_common::stub_not_interrupted))]
#[cfg_attr(kani, kani::stub(crate::decode::lzma::DecoderState::process_next_inner, crate::decode::lzma::verif_h::abs_symbol))]
pub fn partial_p10_r1_l19_2_20() {
    partial_step::<10, 1, 19, 2, 20>()
}

//@ harness props=C05,C15 tier=thorough unwind=22 unwindset=process_mode:7 mem_gb=4 timeout=900 native=no opt_covers=commit_and_carry,nothing_committed
//@ bound: one process_stream call: carry 10 bytes, reader 3 bytes, symbol lengths 1,1,1(,20); contents/range/code symbolic; abstract symbols
#[cfg_attr(kani, kani::proof)]
#[cfg_attr(kani, kani::stub(std::fmt::format, crate::verif_common::stub_format))]
#[cfg_attr(kani, kani::stub(std::io::Error::is_interrupted, crate::verif_common::stub_not_interrupted))]
#[cfg_attr(kani, kani::stub(crate::decode::lzma::DecoderState::process_next_inner, crate::decode::lzma::verif_h::abs_symbol))]
pub fn partial_p10_r3_l1_1_1() {
    partial_step::<10, 3, 1, 1, 1>()
}

//@ harness props=C05,C15 tier=thorough unwind=22 unwindset=process_mode:7 mem_gb=4 timeout=900 native=no opt_covers=commit_and_carry,nothing_committed
//@ bound: one process_stream call: carry 10 bytes, reader 3 bytes, symbol lengths 2,19,1(,20); contents/range/code symbolic; abstract symbols
#[cfg_attr(kani, kani::proof)]
#[cfg_attr(kani, kani::stub(std::fmt::format, crate::verif_common::stub_format))]
#[cfg_attr(kani, kani::stub(std::io::Error::is_interrupted, crate::verif_common::stub_not_interrupted))]
#[cfg_attr(kani, kani::stub(crate::decode::lzma::DecoderState::process_next_inner, crate::decode::lzma::verif_h::abs_symbol))]
pub fn partial_p10_r3_l2_19_1() {
    partial_step::<10, 3, 2, 19, 1>()
}

//@ harness props=C05,C15 tier=thorough unwind=22 unwindset=process_mode:7 mem_gb=4 timeout=900 native=no opt_covers=commit_and_carry,nothing_committed
//@ bound: one process_stream call: carry 10 bytes, reader 3 bytes, symbol lengths 20,1,1(,20); contents/range/code symbolic; abstract symbols
#[cfg_attr(kani, kani::proof)]
#[cfg_attr(kani, kani::stub(std::fmt::format, crate::verif_common::stub_format))]
#[cfg_attr(kani, kani::stub(std::io::Error::is_interrupted, crate::verif_common::stub_not_interrupted))]
#[cfg_attr(kani, kani::stub(crate::decode::lzma::DecoderState::process_next_inner, crate::decode::lzma::verif_h::abs_symbol))]
pub fn partial_p10_r3_l20_1_1() {
    partial_step::<10, 3, 20, 1, 1>()
}

//@ harness props=C05,C15 tier=thorough unwind=22 unwindset=process_mode:7 mem_gb=4 timeout=900 native=no opt_covers=commit_and_carry,nothing_committed
//@ bound: one process_stream call: carry 10 bytes, reader 3 bytes, symbol lengths 5,20,3(,20); contents/range/code symbolic; abstract symbols
#[cfg_attr(kani, kani::proof)]
#[cfg_attr(kani, kani::stub(std::fmt::format, crate::verif_common::stub_format))]
#[cfg_attr(kani, kani::stub(std::io::Error::is_interrupted, crate::verif_common::stub_not_interrupted))]
#[cfg_attr(kani, kani::stub(crate::decode::lzma::DecoderState::process_next_inner, crate::decode::lzma::verif_h::abs_symbol))]
pub fn partial_p10_r3_l5_20_3() {
    partial_step::<10, 3, 5, 20, 3>()
}

//@ harness props=C05,C15 tier=thorough unwind=22 unwindset=process_mode:7 mem_gb=4 timeout=900 native=no opt_covers=commit_and_carry,nothing_committed
//@ bound: one process_stream call: carry 10 bytes, reader 3 bytes, symbol lengths 19,2,20(,20); contents/range/code symbolic; abstract symbols
#[cfg_attr(kani, kani::proof)]
#[cfg_attr(kani, kani::stub(std::fmt::format, crate::verif_common::stub_format))]
#[cfg_attr(kani, kani::stub(std::io::Error::is_interrupted, crate::verif_common::stub_not_interrupted))]
#[cfg_attr(kani, kani::stub(crate::decode::lzma::DecoderState::process_next_inner, crate::decode::lzma::verif_h::abs_symbol))]
pub fn partial_p10_r3_l19_2_20() {
    partial_step::<10, 3, 19, 2, 20>()
}

//@ harness props=C05,C15 tier=thorough unwind=22 unwindset=process_mode:7 mem_gb=4 timeout=900 native=no opt_covers=commit_and_carry,nothing_committed
//@ bound: one process_stream call: carry 10 bytes, reader 8 bytes, symbol lengths 1,1,1(,20); contents/range/code symbolic; abstract symbols
#[cfg_attr(kani, kani::proof)]
#[cfg_attr(kani, kani::stub(std::fmt::format, crate::verif_common::stub_format))]
#[cfg_attr(kani, kani::stub(std::io::Error::is_interrupted, crate::verif_common::stub_not_interrupted))]
#[cfg_attr(kani, kani::stub(crate::decode::lzma::DecoderState::process_next_inner, crate::decode::lzma::verif_h::abs_symbol))]
pub fn partial_p10_r8_l1_1_1() {
    partial_step::<10, 8, 1, 1, 1>()
}

//@ harness props=C05,C15 tier=thorough unwind=22 unwindset=process_mode:7 mem_gb=4 timeout=900 native=no opt_covers=commit_and_carry,nothing_committed
//@ bound: one process_stream call: carry 10 bytes, reader 8 bytes, symbol lengths 2,19,1(,20); contents/range/code symbolic; abstract symbols
#[cfg_attr(kani, kani::proof)]
#[cfg_attr(kani, kani::stub(std::fmt::format, crate::verif_common::stub_format))]
#[cfg_attr(kani, kani::stub(std::io::Error::is_interrupted, crate::verif_common::stub_not_interrupted))]
#[cfg_attr(kani, kani::stub(crate::decode::lzma::DecoderState::process_next_inner, crate::decode::lzma::verif_h::abs_symbol))]
pub fn partial_p10_r8_l2_19_1() {
    partial_step::<10, 8, 2, 19, 1>()
}

//@ harness props=C05,C15 tier=thorough unwind=22 unwindset=process_mode:7 mem_gb=4 timeout=900 native=no opt_covers=commit_and_carry,nothing_committed
//@ bound: one process_stream call: carry 10 bytes, reader 8 bytes, symbol lengths 5,20,3(,20); contents/range/code symbolic; abstract symbols
#[cfg_attr(kani, kani::proof)]
#[cfg_attr(kani, kani::stub(std::fmt::format, crate::verif_common::stub_format))]
#[cfg_attr(kani, kani::stub(std::io::Error::is_interrupted, crate::verif_common::stub_not_interrupted))]
#[cfg_attr(kani, kani::stub(crate::decode::lzma::DecoderState::process_next_inner, crate::decode::lzma::verif_h::abs_symbol))]
pub fn partial_p10_r8_l5_20_3() {
    partial_step::<10, 8, 5, 20, 3>()
}

//@ harness props=C05,C15 tier=thorough unwind=22 unwindset=process_mode:7 mem_gb=4 timeout=900 native=no opt_covers=commit_and_carry,nothing_committed
//@ bound: one process_stream call: carry 10 bytes, reader 8 bytes, symbol lengths 19,2,20(,20); contents/range/code symbolic; abstract symbols
#[cfg_attr(kani, kani::proof)]
#[cfg_attr(kani, kani::stub(std::fmt::format, crate::verif_common::stub_format))]
#[cfg_attr(kani, kani::stub(std::io::Error::is_interrupted, crate::verif_common::stub_not_interrupted))]
#[cfg_attr(kani, kani::stub(crate::decode::lzma::DecoderState::process_next_inner, crate::decode::lzma::verif_h::abs_symbol))]
pub fn partial_p10_r8_l19_2_20() {
    partial_step::<10, 8, 19, 2, 20>()
}

//@ harness props=C05,C15 tier=thorough unwind=22 unwindset=process_mode:7 mem_gb=4 timeout=900 native=no opt_covers=commit_and_carry,nothing_committed
//@ bound: one process_stream call: carry 18 bytes, reader 0 bytes, symbol lengths 1,1,1(,20); contents/range/code symbolic; abstract symbols
#[cfg_attr(kani, kani::proof)]
#[cfg_attr(kani, kani::stub(std::fmt::format, crate::verif_common::stub_format))]
#[cfg_attr(kani, kani::stub(std::io::Error::is_interrupted, crate::verif_common::stub_not_interrupted))]
#[cfg_attr(kani, kani::stub(crate::decode::lzma::DecoderState::process_next_inner, crate::decode::lzma::verif_h::abs_symbol))]
pub fn partial_p18_r0_l1_1_1() {
    partial_step::<18, 0, 1, 1, 1>()
}

//@ harness props=C05,C15 tier=thorough unwind=22 unwindset=process_mode:7 mem_gb=4 timeout=900 native=no opt_covers=commit_and_carry,nothing_committed
//@ bound: one process_stream call: carry 18 bytes, reader 0 bytes, symbol lengths 2,19,1(,20); contents/range/code symbolic; abstract symbols
#[cfg_attr(kani, kani::proof)]
#[cfg_attr(kani, kani::stub(std::fmt::format, crate::verif_common::stub_format))]
#[cfg_attr(kani, kani::stub(std::io::Error::is_interrupted, crate::verif_common::stub_not_interrupted))]
#[cfg_attr(kani, kani::stub(crate::decode::lzma::DecoderState::process_next_inner, crate::decode::lzma::verif_h::abs_symbol))]
pub fn partial_p18_r0_l2_19_1() {
    partial_step::<18, 0, 2, 19, 1>()
}

//@ harness props=C05,C15 tier=thorough unwind=22 unwindset=process_mode:7 mem_gb=4 timeout=900 native=no opt_covers=commit_and_carry,nothing_committed
//@ bound: one process_stream call: carry 18 bytes, reader 0 bytes, symbol lengths 20,1,1(,20); contents/range/code symbolic; abstract symbols
#[cfg_attr(kani, kani::proof)]
#[cfg_attr(kani, kani::stub(std::fmt::format, crate::verif_common::stub_format))]
#[cfg_attr(kani, kani::stub(std::io::Error::is_interrupted, crate::verif_common::stub_not_interrupted))]
#[cfg_attr(kani, kani::stub(crate::decode::lzma::DecoderState::process_next_inner, crate::decode::lzma::verif_h::abs_symbol))]
pub fn partial_p18_r0_l20_1_1() {
    partial_step::<18, 0, 20, 1, 1>()
}

//@ harness props=C05,C15 tier=thorough unwind=22 unwindset=process_mode:7 mem_gb=4 timeout=900 native=no opt_covers=commit_and_carry,nothing_committed
//@ bound: one process_stream call: carry 18 bytes, reader 0 bytes, symbol lengths 5,20,3(,20); contents/range/code symbolic; abstract symbols
#[cfg_attr(kani, kani::proof)]
#[cfg_attr(kani, kani::stub(std::fmt::format, crate::verif_common::stub_format))]
#[cfg_attr(kani, kani::stub(std::io::Error::is_interrupted, crate::verif_common::stub_not_interrupted))]
#[cfg_attr(kani, kani::stub(crate::decode::lzma::DecoderState::process_next_inner, crate::decode::lzma::verif_h::abs_symbol))]
pub fn partial_p18_r0_l5_20_3() {
    partial_step::<18, 0, 5, 20, 3>()
}

//@ harness props=C05,C15 tier=thorough unwind=22 unwindset=process_mode:7 mem_gb=4 timeout=900 native=no opt_covers=commit_and_carry,nothing_committed
//@ bound: one process_stream call: carry 18 bytes, reader 0 bytes, symbol lengths 19,2,20(,20); contents/range/code symbolic; abstract symbols
#[cfg_attr(kani, kani::proof)]
#[cfg_attr(kani, kani::stub(std::fmt::format, crate::verif_common::stub_format))]
#[cfg_attr(kani, kani::stub(std::io::Error::is_interrupted, crate::verif_common::stub_not_interrupted))]
#[cfg_attr(kani, kani::stub(crate::decode::lzma::DecoderState::process_next_inner, crate::decode::lzma::verif_h::abs_symbol))]
pub fn partial_p18_r0_l19_2_20() {
    partial_step::<18, 0, 19, 2, 20>()
}

//@ harness props=C05,C15 tier=thorough unwind=22 unwindset=process_mode:7 mem_gb=4 timeout=900 native=no opt_covers=commit_and_carry,nothing_committed
//@ bound: one process_stream call: carry 18 bytes, reader 1 bytes, symbol lengths 1,1,1(,20); contents/range/code symbolic; abstract symbols
#[cfg_attr(kani, kani::proof)]
#[cfg_attr(kani, kani::stub(std::fmt::format, crate::verif_common::stub_format))]
#[cfg_attr(kani, kani::stub(std::io::Error::is_interrupted, crate::verif_common::stub_not_interrupted))]
#[cfg_attr(kani, kani::stub(crate::decode::lzma::DecoderState::process_next_inner, crate::decode::lzma::verif_h::abs_symbol))]
pub fn partial_p18_r1_l1_1_1() {
    partial_step::<18, 1, 1, 1, 1>()
}

//@ harness props=C05,C15 tier=thorough unwind=22 unwindset=process_mode:7 mem_gb=4 timeout=900 native=no opt_covers=commit_and_carry,nothing_committed
//@ bound: one process_stream call: carry 18 bytes, reader 1 bytes, symbol lengths 2,19,1(,20); contents/range/code symbolic; abstract symbols
#[cfg_attr(kani, kani::proof)]
#[cfg_attr(kani, kani::stub(std::fmt::format, crate::verif_common::stub_format))]
#[cfg_attr(kani, kani::stub(std::io::Error::is_interrupted, crate::verif_common::stub_not_interrupted))]
#[cfg_attr(kani, kani::stub(crate::decode::lzma::DecoderState::process_next_inner, crate::decode::lzma::verif_h::abs_symbol))]
pub fn partial_p18_r1_l2_19_1() {
    partial_step::<18, 1, 2, 19, 1>()
}

//@ harness props=C05,C15 tier=thorough unwind=22 unwindset=process_mode:7 mem_gb=4 timeout=900 native=no opt_covers=commit_and_carry,nothing_committed
//@ bound: one process_stream call: carry 18 bytes, reader 1 bytes, symbol lengths 20,1,1(,20); contents/range/code symbolic; abstract symbols
#[cfg_attr(kani, kani::proof)]
#[cfg_attr(kani, kani::stub(std::fmt::format, crate::verif_common::stub_format))]
#[cfg_attr(kani, kani::stub(std::io::Error::is_interrupted, crate::verif_common::stub_not_interrupted))]
#[cfg_attr(kani, kani::stub(crate::decode::lzma::DecoderState::process_next_inner, crate::decode::lzma::verif_h::abs_symbol))]
pub fn partial_p18_r1_l20_1_1() {
    partial_step::<18, 1, 20, 1, 1>()
}

//@ harness props=C05,C15 tier=thorough unwind=22 unwindset=process_mode:7 mem_gb=4 timeout=900 native=no opt_covers=commit_and_carry,nothing_committed
//@ bound: one process_stream call: carry 18 bytes, reader 1 bytes, symbol lengths 5,20,3(,20); contents/range/code symbolic; abstract symbols
#[cfg_attr(kani, kani::proof)]
#[cfg_attr(kani, kani::stub(std::fmt::format, crate::verif_common::stub_format))]
#[cfg_attr(kani, kani::stub(std::io::Error::is_interrupted, crate::verif_common::stub_not_interrupted))]
#[cfg_attr(kani, kani::stub(crate::decode::lzma::DecoderState::process_next_inner, crate::decode::lzma::verif_h::abs_symbol))]
pub fn partial_p18_r1_l5_20_3() {
    partial_step::<18, 1, 5, 20, 3>()
}

//@ harness props=C05,C15 tier=thorough unwind=22 unwindset=process_mode:7 mem_gb=4 timeout=900 native=no opt_covers=commit_and_carry,nothing_committed
//@ bound: one process_stream call: carry 18 bytes, reader 1 bytes, symbol lengths 19,2,20(,20); contents/range/code symbolic; abstract symbols
#[cfg_attr(kani, kani::proof)]
#[cfg_attr(kani, kani::stub(std::fmt::format, crate::verif_common::stub_format))]
#[cfg_attr(kani, kani::stub(std::io::Error::is_interrupted, crate::verif_common::stub_not_interrupted))]
#[cfg_attr(kani, kani::stub(crate::decode::lzma::DecoderState::process_next_inner, crate::decode::lzma::verif_h::abs_symbol))]
pub fn partial_p18_r1_l19_2_20() {
    partial_step::<18, 1, 19, 2, 20>()
}

//@ harness props=C05,C15 tier=thorough unwind=22 unwindset=process_mode:7 mem_gb=4 timeout=900 native=no opt_covers=commit_and_carry,nothing_committed
//@ bound: one process_stream call: carry 18 bytes, reader 3 bytes, symbol lengths 1,1,1(,20); contents/range/code symbolic; abstract symbols
#[cfg_attr(kani, kani::proof)]
#[cfg_attr(kani, kani::stub(std::fmt::format, crate::verif_common::stub_format))]
#[cfg_attr(kani, kani::stub(std::io::Error::is_interrupted, crate::verif_common::stub_not_interrupted))]
#[cfg_attr(kani, kani::stub(crate::decode::lzma::DecoderState::process_next_inner, crate::decode::lzma::verif_h::abs_symbol))]
pub fn partial_p18_r3_l1_1_1() {
    partial_step::<18, 3, 1, 1, 1>()
}

//@ harness props=C05,C15 tier=thorough unwind=22 unwindset=process_mode:7 mem_gb=4 timeout=900 native=no opt_covers=commit_and_carry,nothing_committed
//@ bound: one process_stream call: carry 18 bytes, reader 3 bytes, symbol lengths 2,19,1(,20); contents/range/code symbolic; abstract symbols
#[cfg_attr(kani, kani::proof)]
#[cfg_attr(kani, kani::stub(std::fmt::format, crate::verif_common::stub_format))]
#[cfg_attr(kani, kani::stub(std::io::Error::is_interrupted, crate::verif_common::stub_not_interrupted))]
#[cfg_attr(kani, kani::stub(crate::decode::lzma::DecoderState::process_next_inner, crate::decode::lzma::verif_h::abs_symbol))]
pub fn partial_p18_r3_l2_19_1() {
    partial_step::<18, 3, 2, 19, 1>()
}

//@ harness props=C05,C15 tier=thorough unwind=22 unwindset=process_mode:7 mem_gb=4 timeout=900 native=no opt_covers=commit_and_carry,nothing_committed
//@ bound: one process_stream call: carry 18 bytes, reader 3 bytes, symbol lengths 20,1,1(,20); contents/range/code symbolic; abstract symbols
#[cfg_attr(kani, kani::proof)]
#[cfg_attr(kani, kani::stub(std::fmt::format, crate::verif_common::stub_format))]
#[cfg_attr(kani, kani::stub(std::io::Error::is_interrupted, crate::verif_common::stub_not_interrupted))]
#[cfg_attr(kani, kani::stub(crate::decode::lzma::DecoderState::process_next_inner, crate::decode::lzma::verif_h::abs_symbol))]
pub fn partial_p18_r3_l20_1_1() {
    partial_step::<18, 3, 20, 1, 1>()
}

//@ harness props=C05,C15 tier=thorough unwind=22 unwindset=process_mode:7 mem_gb=4 timeout=900 native=no opt_covers=commit_and_carry,nothing_committed
//@ bound: one process_stream call: carry 18 bytes, reader 3 bytes, symbol lengths 5,20,3(,20); contents/range/code symbolic; abstract symbols
#[cfg_attr(kani, kani::proof)]
#[cfg_attr(kani, kani::stub(std::fmt::format, crate::verif_common::stub_format))]
#[cfg_attr(kani, kani::stub(std::io::Error::is_interrupted, crate::verif_common::stub_not_interrupted))]
#[cfg_attr(kani, kani::stub(crate::decode::lzma::DecoderState::process_next_inner, crate::decode::lzma::verif_h::abs_symbol))]
pub fn partial_p18_r3_l5_20_3() {
    partial_step::<18, 3, 5, 20, 3>()
}

//@ harness props=C05,C15 tier=thorough unwind=22 unwindset=process_mode:7 mem_gb=4 timeout=900 native=no opt_covers=commit_and_carry,nothing_committed
//@ bound: one process_stream call: carry 18 bytes, reader 3 bytes, symbol lengths 19,2,20(,20); contents/range/code symbolic; abstract symbols
#[cfg_attr(kani, kani::proof)]
#[cfg_attr(kani, kani::stub(std::fmt::format, crate::verif_common::stub_format))]
#[cfg_attr(kani, kani::stub(std::io::Error::is_interrupted, crate::verif_common::stub_not_interrupted))]
#[cfg_attr(kani, kani::stub(crate::decode::lzma::DecoderState::process_next_inner, crate::decode::lzma::verif_h::abs_symbol))]
pub fn partial_p18_r3_l19_2_20() {
    partial_step::<18, 3, 19, 2, 20>()
}


//@ harness props=C05,C15 tier=thorough unwind=22 unwindset=process_mode:7 mem_gb=4 timeout=900 native=no opt_covers=commit_and_carry,nothing_committed
//@ bound: one process_stream call: carry 18 bytes, reader 8 bytes, symbol lengths 2,19,1(,20); contents/range/code symbolic; abstract symbols
#[cfg_attr(kani, kani::proof)]
#[cfg_attr(kani, kani::stub(std::fmt::format, crate::verif_common::stub_format))]
#[cfg_attr(kani, kani::stub(std::io::Error::is_interrupted, crate::verif_common::stub_not_interrupted))]
#[cfg_attr(kani, kani::stub(crate::decode::lzma::DecoderState::process_next_inner, crate::decode::lzma::verif_h::abs_symbol))]
pub fn partial_p18_r8_l2_19_1() {
    partial_step::<18, 8, 2, 19, 1>()
}

//@ harness props=C05,C15 tier=thorough unwind=22 unwindset=process_mode:7 mem_gb=4 timeout=900 native=no opt_covers=commit_and_carry,nothing_committed
//@ bound: one process_stream call: carry 18 bytes, reader 8 bytes, symbol lengths 20,1,1(,20); contents/range/code symbolic; abstract symbols
#[cfg_attr(kani, kani::proof)]
#[cfg_attr(kani, kani::stub(std::fmt::format, crate::verif_common::stub_format))]
#[cfg_attr(kani, kani::stub(std::io::Error::is_interrupted, crate::verif_common::stub_not_interrupted))]
#[cfg_attr(kani, kani::stub(crate::decode::lzma::DecoderState::process_next_inner, crate::decode::lzma::verif_h::abs_symbol))]
pub fn partial_p18_r8_l20_1_1() {
    partial_step::<18, 8, 20, 1, 1>()
}

//@ harness props=C05,C15 tier=thorough unwind=22 unwindset=process_mode:7 mem_gb=4 timeout=900 native=no opt_covers=commit_and_carry,nothing_committed
//@ bound: one process_stream call: carry 18 bytes, reader 8 bytes, symbol lengths 5,20,3(,20); contents/range/code symbolic; abstract symbols
#[cfg_attr(kani, kani::proof)]
#[cfg_attr(kani, kani::stub(std::fmt::format, crate::verif_common::stub_format))]
#[cfg_attr(kani, kani::stub(std::io::Error::is_interrupted, crate::verif_common::stub_not_interrupted))]
#[cfg_attr(kani, kani::stub(crate::decode::lzma::DecoderState::process_next_inner, crate::decode::lzma::verif_h::abs_symbol))]
pub fn partial_p18_r8_l5_20_3() {
    partial_step::<18, 8, 5, 20, 3>()
}

//@ harness props=C05,C15 tier=thorough unwind=22 unwindset=process_mode:7 mem_gb=4 timeout=900 native=no opt_covers=commit_and_carry,nothing_committed
//@ bound: one process_stream call: carry 18 bytes, reader 8 bytes, symbol lengths 19,2,20(,20); contents/range/code symbolic; abstract symbols
#[cfg_attr(kani, kani::proof)]
#[cfg_attr(kani, kani::stub(std::fmt::format, crate::verif_common::stub_format))]
#[cfg_attr(kani, kani::stub(std::io::Error::is_interrupted, crate::verif_common::stub_not_interrupted))]
#[cfg_attr(kani, kani::stub(crate::decode::lzma::DecoderState::process_next_inner, crate::decode::lzma::verif_h::abs_symbol))]
pub fn partial_p18_r8_l19_2_20() {
    partial_step::<18, 8, 19, 2, 20>()
}

//@ harness props=C05,C15 tier=thorough unwind=22 unwindset=process_mode:7 mem_gb=4 timeout=900 native=no opt_covers=commit_and_carry,nothing_committed
//@ bound: one process_stream call: carry 19 bytes, reader 0 bytes, symbol lengths 1,1,1(,20); contents/range/code symbolic; abstract symbols
#[cfg_attr(kani, kani::proof)]
#[cfg_attr(kani, kani::stub(std::fmt::format, crate::verif_common::stub_format))]
#[cfg_attr(kani, kani::stub(std::io::Error::is_interrupted, crate::verif_common::stub_not_interrupted))]
#[cfg_attr(kani, kani::stub(crate::decode::lzma::DecoderState::process_next_inner, crate::decode::lzma::verif_h::abs_symbol))]
pub fn partial_p19_r0_l1_1_1() {
    partial_step::<19, 0, 1, 1, 1>()
}

//@ harness props=C05,C15 tier=thorough unwind=22 unwindset=process_mode:7 mem_gb=4 timeout=900 native=no opt_covers=commit_and_carry,nothing_committed
//@ bound: one process_stream call: carry 19 bytes, reader 0 bytes, symbol lengths 2,19,1(,20); contents/range/code symbolic; abstract symbols
#[cfg_attr(kani, kani::proof)]
#[cfg_attr(kani, kani::stub(std::fmt::format, crate::verif_common::stub_format))]
#[cfg_attr(kani, kani::stub(std::io::Error::is_interrupted, crate::verif_common::stub_not_interrupted))]
#[cfg_attr(kani, kani::stub(crate::decode::lzma::DecoderState::process_next_inner, crate::decode::lzma::verif_h::abs_symbol))]
pub fn partial_p19_r0_l2_19_1() {
    partial_step::<19, 0, 2, 19, 1>()
}

//@ harness props=C05,C15 tier=thorough unwind=22 unwindset=process_mode:7 mem_gb=4 timeout=900 native=no opt_covers=commit_and_carry,nothing_committed
//@ bound: one process_stream call: carry 19 bytes, reader 0 bytes, symbol lengths 20,1,1(,20); contents/range/code symbolic; abstract symbols
#[cfg_attr(kani, kani::proof)]
#[cfg_attr(kani, kani::stub(std::fmt::format, crate::verif_common::stub_format))]
#[cfg_attr(kani, kani::stub(std::io::Error::is_interrupted, crate::verif_common::stub_not_interrupted))]
#[cfg_attr(kani, kani::stub(crate::decode::lzma::DecoderState::process_next_inner, crate::decode::lzma::verif_h::abs_symbol))]
pub fn partial_p19_r0_l20_1_1() {
    partial_step::<19, 0, 20, 1, 1>()
}

//@ harness props=C05,C15 tier=thorough unwind=22 unwindset=process_mode:7 mem_gb=4 timeout=900 native=no opt_covers=commit_and_carry,nothing_committed
//@ bound: one process_stream call: carry 19 bytes, reader 0 bytes, symbol lengths 5,20,3(,20); contents/range/code symbolic; abstract symbols
#[cfg_attr(kani, kani::proof)]
#[cfg_attr(kani, kani::stub(std::fmt::format, crate::verif_common::stub_format))]
#[cfg_attr(kani, kani::stub(std::io::Error::is_interrupted, crate::verif_common::stub_not_interrupted))]
#[cfg_attr(kani, kani::stub(crate::decode::lzma::DecoderState::process_next_inner, crate::decode::lzma::verif_h::abs_symbol))]
pub fn partial_p19_r0_l5_20_3() {
    partial_step::<19, 0, 5, 20, 3>()
}

//@ harness props=C05,C15 tier=thorough unwind=22 unwindset=process_mode:7 mem_gb=4 timeout=900 native=no opt_covers=commit_and_carry,nothing_committed
//@ bound: one process_stream call: carry 19 bytes, reader 0 bytes, symbol lengths 19,2,20(,20); contents/range/code symbolic; abstract symbols
#[cfg_attr(kani, kani::proof)]
#[cfg_attr(kani, kani::stub(std::fmt::format, crate::verif_common::stub_format))]
#[cfg_attr(kani, kani::stub(std::io::Error::is_interrupted, crate::verif_common::stub_not_interrupted))]
#[cfg_attr(kani, kani::stub(crate::decode::lzma::DecoderState::process_next_inner, crate::decode::lzma::verif_h::abs_symbol))]
pub fn partial_p19_r0_l19_2_20() {
    partial_step::<19, 0, 19, 2, 20>()
}

//@ harness props=C05,C15 tier=thorough unwind=22 unwindset=process_mode:7 mem_gb=4 timeout=900 native=no opt_covers=commit_and_carry,nothing_committed
//@ bound: one process_stream call: carry 19 bytes, reader 1 bytes, symbol lengths 1,1,1(,20); contents/range/code symbolic; abstract symbols
#[cfg_attr(kani, kani::proof)]
#[cfg_attr(kani, kani::stub(std::fmt::format, crate::verif_common::stub_format))]
#[cfg_attr(kani, kani::stub(std::io::Error::is_interrupted, crate::verif_common::stub_not_interrupted))]
#[cfg_attr(kani, kani::stub(crate::decode::lzma::DecoderState::process_next_inner, crate::decode::lzma::verif_h::abs_symbol))]
pub fn partial_p19_r1_l1_1_1() {
    partial_step::<19, 1, 1, 1, 1>()
}

//@ harness props=C05,C15 tier=thorough unwind=22 unwindset=process_mode:7 mem_gb=4 timeout=900 native=no opt_covers=commit_and_carry,nothing_committed
//@ bound: one process_stream call: carry 19 bytes, reader 1 bytes, symbol lengths 2,19,1(,20); contents/range/code symbolic; abstract symbols
#[cfg_attr(kani, kani::proof)]
#[cfg_attr(kani, kani::stub(std::fmt::format, crate::verif_common::stub_format))]
#[cfg_attr(kani, kani::stub(std::io::Error::is_interrupted, crate::verif_common::stub_not_interrupted))]
#[cfg_attr(kani, kani::stub(crate::decode::lzma::DecoderState::process_next_inner, crate::decode::lzma::verif_h::abs_symbol))]
pub fn partial_p19_r1_l2_19_1() {
    partial_step::<19, 1, 2, 19, 1>()
}

//@ harness props=C05,C15 tier=thorough unwind=22 unwindset=process_mode:7 mem_gb=4 timeout=900 native=no opt_covers=commit_and_carry,nothing_committed
//@ bound: one process_stream call: carry 19 bytes, reader 1 bytes, symbol lengths 20,1,1(,20); contents/range/code symbolic; abstract symbols
#[cfg_attr(kani, kani::proof)]
#[cfg_attr(kani, kani::stub(std::fmt::format, crate::verif_common::stub_format))]
#[cfg_attr(kani, kani::stub(std::io::Error::is_interrupted, crate::verif_common::stub_not_interrupted))]
#[cfg_attr(kani, kani::stub(crate::decode::lzma::DecoderState::process_next_inner, crate::decode::lzma::verif_h::abs_symbol))]
pub fn partial_p19_r1_l20_1_1() {
    partial_step::<19, 1, 20, 1, 1>()
}

//@ harness props=C05,C15 tier=thorough unwind=22 unwindset=process_mode:7 mem_gb=4 timeout=900 native=no opt_covers=commit_and_carry,nothing_committed
//@ bound: one process_stream call: carry 19 bytes, reader 1 bytes, symbol lengths 5,20,3(,20); contents/range/code symbolic; abstract symbols
#[cfg_attr(kani, kani::proof)]
#[cfg_attr(kani, kani::stub(std::fmt::format, crate::verif_common::stub_format))]
#[cfg_attr(kani, kani::stub(std::io::Error::is_interrupted, crate::verif_common::stub_not_interrupted))]
#[cfg_attr(kani, kani::stub(crate::decode::lzma::DecoderState::process_next_inner, crate::decode::lzma::verif_h::abs_symbol))]
pub fn partial_p19_r1_l5_20_3() {
    partial_step::<19, 1, 5, 20, 3>()
}

//@ harness props=C05,C15 tier=thorough unwind=22 unwindset=process_mode:7 mem_gb=4 timeout=900 native=no opt_covers=commit_and_carry,nothing_committed
//@ bound: one process_stream call: carry 19 bytes, reader 1 bytes, symbol lengths 19,2,20(,20); contents/range/code symbolic; abstract symbols
#[cfg_attr(kani, kani::proof)]
#[cfg_attr(kani, kani::stub(std::fmt::format, crate::verif_common::stub_format))]
#[cfg_attr(kani, kani::stub(std::io::Error::is_interrupted, crate::verif_common::stub_not_interrupted))]
#[cfg_attr(kani, kani::stub(crate::decode::lzma::DecoderState::process_next_inner, crate::decode::lzma::verif_h::abs_symbol))]
pub fn partial_p19_r1_l19_2_20() {
    partial_step::<19, 1, 19, 2, 20>()
}

//@ harness props=C05,C15 tier=thorough unwind=22 unwindset=process_mode:7 mem_gb=4 timeout=900 native=no opt_covers=commit_and_carry,nothing_committed
//@ bound: one process_stream call: carry 19 bytes, reader 3 bytes, symbol lengths 1,1,1(,20); contents/range/code symbolic; abstract symbols
#[cfg_attr(kani, kani::proof)]
#[cfg_attr(kani, kani::stub(std::fmt::format, crate::verif_common::stub_format))]
#[cfg_attr(kani, kani::stub(std::io::Error::is_interrupted, crate::verif_common::stub_not_interrupted))]
#[cfg_attr(kani, kani::stub(crate::decode::lzma::DecoderState::process_next_inner, crate::decode::lzma::verif_h::abs_symbol))]
pub fn partial_p19_r3_l1_1_1() {
    partial_step::<19, 3, 1, 1, 1>()
}

//@ harness props=C05,C15 tier=thorough unwind=22 unwindset=process_mode:7 mem_gb=4 timeout=900 native=no opt_covers=commit_and_carry,nothing_committed
//@ bound: one process_stream call: carry 19 bytes, reader 3 bytes, symbol lengths 2,19,1(,20); contents/range/code symbolic; abstract symbols
#[cfg_attr(kani, kani::proof)]
#[cfg_attr(kani, kani::stub(std::fmt::format, crate::verif_common::stub_format))]
#[cfg_attr(kani, kani::stub(std::io::Error::is_interrupted, crate::verif_common::stub_not_interrupted))]
#[cfg_attr(kani, kani::stub(crate::decode::lzma::DecoderState::process_next_inner, crate::decode::lzma::verif_h::abs_symbol))]
pub fn partial_p19_r3_l2_19_1() {
    partial_step::<19, 3, 2, 19, 1>()
}

//@ harness props=C05,C15 tier=thorough unwind=22 unwindset=process_mode:7 mem_gb=4 timeout=900 native=no opt_covers=commit_and_carry,nothing_committed
//@ bound: one process_stream call: carry 19 bytes, reader 3 bytes, symbol lengths 20,1,1(,20); contents/range/code symbolic; abstract symbols
#[cfg_attr(kani, kani::proof)]
#[cfg_attr(kani, kani::stub(std::fmt::format, crate::verif_common::stub_format))]
#[cfg_attr(kani, kani::stub(std::io::Error::is_interrupted, crate::verif_common::stub_not_interrupted))]
#[cfg_attr(kani, kani::stub(crate::decode::lzma::DecoderState::process_next_inner, crate::decode::lzma::verif_h::abs_symbol))]
pub fn partial_p19_r3_l20_1_1() {
    partial_step::<19, 3, 20, 1, 1>()
}

//@ harness props=C05,C15 tier=thorough unwind=22 unwindset=process_mode:7 mem_gb=4 timeout=900 native=no opt_covers=commit_and_carry,nothing_committed
//@ bound: one process_stream call: carry 19 bytes, reader 3 bytes, symbol lengths 5,20,3(,20); contents/range/code symbolic; abstract symbols
#[cfg_attr(kani, kani::proof)]
#[cfg_attr(kani, kani::stub(std::fmt::format, crate::verif_common::stub_format))]
#[cfg_attr(kani, kani::stub(std::io::Error::is_interrupted, crate::verif_common::stub_not_interrupted))]
#[cfg_attr(kani, kani::stub(crate::decode::lzma::DecoderState::process_next_inner, crate::decode::lzma::verif_h::abs_symbol))]
pub fn partial_p19_r3_l5_20_3() {
    partial_step::<19, 3, 5, 20, 3>()
}

//@ harness props=C05,C15 tier=thorough unwind=22 unwindset=process_mode:7 mem_gb=4 timeout=900 native=no opt_covers=commit_and_carry,nothing_committed
//@ bound: one process_stream call: carry 19 bytes, reader 3 bytes, symbol lengths 19,2,20(,20); contents/range/code symbolic; abstract symbols
#[cfg_attr(kani, kani::proof)]
#[cfg_attr(kani, kani::stub(std::fmt::format, crate::verif_common::stub_format))]
#[cfg_attr(kani, kani::stub(std::io::Error::is_interrupted, crate::verif_common::stub_not_interrupted))]
#[cfg_attr(kani, kani::stub(crate::decode::lzma::DecoderState::process_next_inner, crate::decode::lzma::verif_h::abs_symbol))]
pub fn partial_p19_r3_l19_2_20() {
    partial_step::<19, 3, 19, 2, 20>()
}


//@ harness props=C05,C15 tier=thorough unwind=22 unwindset=process_mode:7 mem_gb=4 timeout=900 native=no opt_covers=commit_and_carry,nothing_committed
//@ bound: one process_stream call: carry 19 bytes, reader 8 bytes, symbol lengths 2,19,1(,20); contents/range/code symbolic; abstract symbols
#[cfg_attr(kani, kani::proof)]
#[cfg_attr(kani, kani::stub(std::fmt::format, crate::verif_common::stub_format))]
#[cfg_attr(kani, kani::stub(std::io::Error::is_interrupted, crate::verif_common::stub_not_interrupted))]
#[cfg_attr(kani, kani::stub(crate::decode::lzma::DecoderState::process_next_inner, crate::decode::lzma::verif_h::abs_symbol))]
pub fn partial_p19_r8_l2_19_1() {
    partial_step::<19, 8, 2, 19, 1>()
}

//@ harness props=C05,C15 tier=thorough unwind=22 unwindset=process_mode:7 mem_gb=4 timeout=900 native=no opt_covers=commit_and_carry,nothing_committed
//@ bound: one process_stream call: carry 19 bytes, reader 8 bytes, symbol lengths 20,1,1(,20); contents/range/code symbolic; abstract symbols
#[cfg_attr(kani, kani::proof)]
#[cfg_attr(kani, kani::stub(std::fmt::format, crate::verif_common::stub_format))]
#[cfg_attr(kani, kani::stub(std::io::Error::is_interrupted, crate::verif_common::stub_not_interrupted))]
#[cfg_attr(kani, kani::stub(crate::decode::lzma::DecoderState::process_next_inner, crate::decode::lzma::verif_h::abs_symbol))]
pub fn partial_p19_r8_l20_1_1() {
    partial_step::<19, 8, 20, 1, 1>()
}

//@ harness props=C05,C15 tier=thorough unwind=22 unwindset=process_mode:7 mem_gb=4 timeout=900 native=no opt_covers=commit_and_carry,nothing_committed
//@ bound: one process_stream call: carry 19 bytes, reader 8 bytes, symbol lengths 5,20,3(,20); contents/range/code symbolic; abstract symbols
#[cfg_attr(kani, kani::proof)]
#[cfg_attr(kani, kani::stub(std::fmt::format, crate::verif_common::stub_format))]
#[cfg_attr(kani, kani::stub(std::io::Error::is_interrupted, crate::verif_common::stub_not_interrupted))]
#[cfg_attr(kani, kani::stub(crate::decode::lzma::DecoderState::process_next_inner, crate::decode::lzma::verif_h::abs_symbol))]
pub fn partial_p19_r8_l5_20_3() {
    partial_step::<19, 8, 5, 20, 3>()
}

//@ harness props=C05,C15 tier=thorough unwind=22 unwindset=process_mode:7 mem_gb=4 timeout=900 native=no opt_covers=commit_and_carry,nothing_committed
//@ bound: one process_stream call: carry 19 bytes, reader 8 bytes, symbol lengths 19,2,20(,20); contents/range/code symbolic; abstract symbols
#[cfg_attr(kani, kani::proof)]
#[cfg_attr(kani, kani::stub(std::fmt::format, crate::verif_common::stub_format))]
#[cfg_attr(kani, kani::stub(std::io::Error::is_interrupted, crate::verif_common::stub_not_interrupted))]
#[cfg_attr(kani, kani::stub(crate::decode::lzma::DecoderState::process_next_inner, crate::decode::lzma::verif_h::abs_symbol))]
pub fn partial_p19_r8_l19_2_20() {
    partial_step::<19, 8, 19, 2, 20>()
}


//@ harness props=C01,C08,C09,C17,C11 tier=quick unwind=10 unwindset=RangeDecoder.*E3getB:28,decode_distance:28 mem_gb=10 timeout=1500 native=no opt_covers=dry_longest,literal_lc1_lp3,longest_match_pb4
//@ bound: ONE symbol of process_next_inner(update=true), concrete lc=0 lp=0 pb=0 (768 cells), every valid state, any decision bits, symbolic size in effect
#[cfg_attr(kani, kani::proof)]
#[cfg_attr(kani, kani::stub(std::fmt::format, crate::verif_common::stub_format))]
#[cfg_attr(kani, kani::stub(std::io::Error::is_interrupted, crate::verif_common::stub_not_interrupted))]
#[cfg_attr(kani, kani::stub(crate::decode::rangecoder::RangeDecoder::decode_bit, crate::decode::rangecoder::verif_h::oracle_decode_bit))]
#[cfg_attr(kani, kani::stub(crate::decode::rangecoder::RangeDecoder::get_bit, crate::decode::rangecoder::verif_h::oracle_get_bit))]
pub fn sym_conformance_lc0() {
    one_symbol::<768, 1000, true>()
}

//@ harness props=C10,C14,C12 tier=quick unwind=8 unwindset=process_mode:5,default_read_exact:4,extend_with:3 mem_gb=6 timeout=600 native=no
//@ bound: raw LzmaDecoder with memlimit 0: decompress (fails on the limit), reset, decompress again on a second input: the limit is enforced on every call
#[cfg_attr(kani, kani::proof)]
#[cfg_attr(kani, kani::stub(std::fmt::format, crate::verif_common::stub_format))]
#[cfg_attr(kani, kani::stub(std::io::Error::is_interrupted, crate::verif_common::stub_not_interrupted))]
#[cfg_attr(kani, kani::stub(crate::decode::lzma::DecoderState::process_next_inner, crate::decode::lzma::verif_h::abs_symbol))]
#[cfg_attr(kani, kani::stub(crate::decode::lzma::DecoderState::reset_state, crate::decode::lzma::verif_h::observing_reset_state_lzma))]
#[cfg_attr(kani, kani::stub(crate::decode::lzbuffer::LzCircularBuffer::from_stream, crate::decode::lzbuffer::verif_h::circ_from_stream_with_capacity))]
#[cfg_attr(kani, kani::stub(crate::decode::lzma::DecoderState::new, crate::decode::lzma::verif_h::new_scripted_from_statics))]
pub fn raw_lzma_decompress_twice_limit() {
    let mut t = Tape::<32>::new();
    let f1 = [t.u8(), t.u8(), t.u8(), t.u8(), t.u8(), t.u8(), t.u8(), 0xEE];
    let f2 = [t.u8(), t.u8(), t.u8(), t.u8(), t.u8(), t.u8(), t.u8(), 0xEE];
    let mut dec = match mk_raw_decoder(0x1000 as u32, Some(1), Some(0), [script(2, K_LIT), script(2, K_LIT), script(20, K_LIT), script(20, K_LIT)]) {
        Some(d) => d,
        None => {
            vassert!(false, "raw decoder: the constructor accepts these parameters");
            return;
        }
    };
    let mut rd1 = ArrReader::<8>::new(f1, 8);
    let mut sink1 = CountSink::new();
    let r1 = dec.decompress(&mut rd1, &mut sink1);
    let e1 = r1.is_err();
    forget(r1);
    vassert!(e1, "raw decoder: the memory limit is enforced on the first decompress");
    dec.reset(None);
    let mut rd2 = ArrReader::<8>::new(f2, 8);
    let mut sink2 = CountSink::new();
    let r2 = dec.decompress(&mut rd2, &mut sink2);
    let e2 = r2.is_err();
    forget(r2);
    vassert!(e2, "raw decoder: the memory limit is still enforced after reset, on every later decompress");
    vassert!(sink2.bytes == 0, "raw decoder: nothing is delivered beyond the limit");
    vcover!(true, "end_reached");
    forget(dec);
}


//@ harness props=C14,C11,C08 tier=quick unwind=8 unwindset=process_mode:5,default_read_exact:4,extend_with:3 mem_gb=6 timeout=600 native=no
//@ bound: raw LzmaDecoder with expected size 1: decompress (one abstract 2-byte literal), reset(None), decompress a second input that holds more than one symbol: the size given at construction is still in effect (a decode does not use up the decoder's parameters)
#[cfg_attr(kani, kani::proof)]
#[cfg_attr(kani, kani::stub(std::fmt::format, crate::verif_common::stub_format))]
#[cfg_attr(kani, kani::stub(std::io::Error::is_interrupted, crate::verif_common::stub_not_interrupted))]
#[cfg_attr(kani, kani::stub(crate::decode::lzma::DecoderState::process_next_inner, crate::decode::lzma::verif_h::abs_symbol))]
#[cfg_attr(kani, kani::stub(crate::decode::lzma::DecoderState::reset_state, crate::decode::lzma::verif_h::observing_reset_state_lzma))]
#[cfg_attr(kani, kani::stub(crate::decode::lzbuffer::LzCircularBuffer::from_stream, crate::decode::lzbuffer::verif_h::circ_from_stream_with_capacity))]
#[cfg_attr(kani, kani::stub(crate::decode::lzma::DecoderState::new, crate::decode::lzma::verif_h::new_scripted_from_statics))]
pub fn raw_lzma_decompress_twice_sized() {
    let mut t = Tape::<32>::new();
    let f1 = [t.u8(), t.u8(), t.u8(), t.u8(), t.u8(), t.u8(), t.u8(), 0xEE];
    let f2 = [t.u8(), t.u8(), t.u8(), t.u8(), t.u8(), t.u8(), t.u8(), t.u8(), t.u8(), 0xEE];
    let mut dec = match mk_raw_decoder(0x1000 as u32, Some(1), None, [script(2, K_LIT), script(2, K_LIT), script(2, K_LIT), script(20, K_LIT)]) {
        Some(d) => d,
        None => {
            vassert!(false, "raw decoder: the constructor accepts these parameters");
            return;
        }
    };
    let mut rd1 = ArrReader::<8>::new(f1, 8);
    let mut sink1 = CountSink::new();
    let r1 = dec.decompress(&mut rd1, &mut sink1);
    let ok1 = r1.is_ok();
    forget(r1);
    vassert!(ok1 && sink1.bytes == 1 && rd1.pos == 7, "one-shot decoder: reader left right after the payload (size-bounded decode)");
    vassert!(dec.state.unpacked_size == Some(1), "raw decoder: a decode does not use up the expected size the decoder was given");
    dec.reset(None);
    vassert!(dec.state.unpacked_size == Some(1), "raw decoder: reset keeps the expected size on None and replaces it on Some");
    let mut rd2 = ArrReader::<10>::new(f2, 10);
    let mut sink2 = CountSink::new();
    let r2 = dec.decompress(&mut rd2, &mut sink2);
    let ok2 = r2.is_ok();
    forget(r2);
    vassert!(ok2 && sink2.bytes == 1 && rd2.pos == 7, "raw decoder: after reset(None) the next decode stops at the same expected size as the first");
    vcover!(true, "end_reached");
    forget(dec);
}


// ----- scripted stand-in for DecoderState::process_stream (Stream data-arm glue harnesses) -----
pub static PS_CALLS: std::sync::atomic::AtomicUsize = std::sync::atomic::AtomicUsize::new(0);
pub static PS_FAIL_AT: std::sync::atomic::AtomicUsize = std::sync::atomic::AtomicUsize::new(usize::MAX);
/// 0 = decoding error (LzmaError), 1 = I/O error from the sink (IoError)
pub static PS_FAIL_KIND: std::sync::atomic::AtomicUsize = std::sync::atomic::AtomicUsize::new(0);
/// 1 = consume the whole input (normal), 0 = consume nothing (declared size already reached)
pub static PS_CONSUME: std::sync::atomic::AtomicUsize = std::sync::atomic::AtomicUsize::new(1);
pub static PS_LEN0: std::sync::atomic::AtomicUsize = std::sync::atomic::AtomicUsize::new(usize::MAX);
pub static PS_LEN1: std::sync::atomic::AtomicUsize = std::sync::atomic::AtomicUsize::new(usize::MAX);
pub static PS_LEN2: std::sync::atomic::AtomicUsize = std::sync::atomic::AtomicUsize::new(usize::MAX);
impl DecoderState {
    pub fn scripted_process_stream<W: io::Write, LZB: LzBuffer<W>, R: io::BufRead>(
        &mut self,
        _output: &mut LZB,
        rangecoder: &mut RangeDecoder<'_, R>,
    ) -> error::Result<()> {
        use std::sync::atomic::Ordering::Relaxed;
        let k = PS_CALLS.load(Relaxed);
        PS_CALLS.store(k + 1, Relaxed);
        let n = match rangecoder.stream.fill_buf() {
            Ok(b) => b.len(),
            Err(e) => return Err(error::Error::IoError(e)),
        };
        if PS_CONSUME.load(Relaxed) == 1 {
            rangecoder.stream.consume(n);
        }
        if k == 0 {
            PS_LEN0.store(n, Relaxed);
        } else if k == 1 {
            PS_LEN1.store(n, Relaxed);
        } else {
            PS_LEN2.store(n, Relaxed);
        }
        // the coder state moves, so that the write-back of (range, code) is observable
        rangecoder.range = rangecoder.range.rotate_left(1) ^ 0x5A5A_0000;
        rangecoder.code = rangecoder.code.wrapping_add(n as u32 + 1);
        if k == PS_FAIL_AT.load(Relaxed) {
            return if PS_FAIL_KIND.load(Relaxed) == 1 {
                Err(error::Error::IoError(crate::verif_common::io_fault()))
            } else {
                Err(error::Error::LzmaError(String::new()))
            };
        }
        Ok(())
    }
}


// ----- DecoderState::new stand-in whose abstract-symbol script comes from statics -----
pub static NEW_SCRIPT0: std::sync::atomic::AtomicUsize = std::sync::atomic::AtomicUsize::new(0);
pub static NEW_SCRIPT1: std::sync::atomic::AtomicUsize = std::sync::atomic::AtomicUsize::new(0);
pub static NEW_SCRIPT2: std::sync::atomic::AtomicUsize = std::sync::atomic::AtomicUsize::new(0);
pub static NEW_SCRIPT3: std::sync::atomic::AtomicUsize = std::sync::atomic::AtomicUsize::new(0);
pub fn set_new_script(sc: [usize; 4]) {
    use std::sync::atomic::Ordering::Relaxed;
    NEW_SCRIPT0.store(sc[0], Relaxed);
    NEW_SCRIPT1.store(sc[1], Relaxed);
    NEW_SCRIPT2.store(sc[2], Relaxed);
    NEW_SCRIPT3.store(sc[3], Relaxed);
}
pub fn new_scripted_from_statics(props: LzmaProperties, size: Option<u64>) -> DecoderState {
    use std::sync::atomic::Ordering::Relaxed;
    let mut d = light_state::<0>(props, size);
    set_script(&mut d, [NEW_SCRIPT0.load(Relaxed), NEW_SCRIPT1.load(Relaxed), NEW_SCRIPT2.load(Relaxed), NEW_SCRIPT3.load(Relaxed)]);
    d
}
/// raw decoder through its public constructor (no struct literal: the harness must keep
/// compiling when private fields change type), DecoderState::new stubbed by the function above
pub fn mk_raw_decoder(dict: u32, size: Option<u64>, memlimit: Option<usize>, sc: [usize; 4]) -> Option<LzmaDecoder> {
    set_new_script(sc);
    let params = LzmaParams { properties: LzmaProperties { lc: 0, lp: 0, pb: 0 }, dict_size: dict, unpacked_size: size };
    match LzmaDecoder::new(params, memlimit) {
        Ok(d) => Some(d),
        Err(e) => {
            forget(e);
            None
        }
    }
}


/// The one-shot entry point `lzma_decompress_with_options` as glue: header -> parameters ->
/// window (dictionary size, memory limit) -> decode -> flush. Abstract symbols; the window
/// constructor is observed.
fn lib_lzma_glue<const OPT: usize, const DICT: u32>() {
    use crate::decode::lzbuffer::verif_h::{OBS_CIRC_CALLS, OBS_CIRC_DICT, OBS_CIRC_MEMLIMIT};
    use std::sync::atomic::Ordering::Relaxed;
    let mut t = Tape::<48>::new();
    // concrete per instance: a symbolic dictionary size keeps the constructor's zero-size error
    // path alive through the whole decode (out of memory at 6 GB)
    let dict = DICT;
    // the size in effect is concrete (1): a symbolic size makes the exit of the decoding loop
    // undecidable for the symbolic-execution engine (out of memory); how the size field and the
    // options select it is decided on arbitrary values in header_*
    let hs = 1u64;
    let ml_some = t.bool();
    let ml = t.usize();
    let pv_some = true;
    let pv = 1u64;
    let b: [u8; 7] = t.bytes::<7>();
    let d4 = dict.to_le_bytes();
    let s8 = hs.to_le_bytes();
    let hlen = if OPT == 2 { 5 } else { 13 };
    let mut f = [0u8; 24];
    f[0] = 0x5D;
    f[1] = d4[0];
    f[2] = d4[1];
    f[3] = d4[2];
    f[4] = d4[3];
    if OPT != 2 {
        let mut i = 0;
        while i < 8 {
            f[5 + i] = s8[i];
            i += 1;
        }
    }
    let mut i = 0;
    while i < 7 {
        f[hlen + i] = b[i];
        i += 1;
    }
    f[hlen + 7] = 0xEE;
    let provided = if pv_some { Some(pv) } else { None };
    let opts = Options {
        unpacked_size: match OPT {
            0 => UnpackedSize::ReadFromHeader,
            1 => UnpackedSize::ReadHeaderButUseProvided(provided),
            _ => UnpackedSize::UseProvided(provided),
        },
        memlimit: if ml_some { Some(ml) } else { None },
        allow_incomplete: t.bool(),
    };
    // the size in effect
    let size = match OPT {
        0 => {
            if hs == u64::MAX {
                None
            } else {
                Some(hs)
            }
        }
        _ => provided,
    };
    // instances are about the sized path with exactly one 2-byte literal
    vassert!(size == Some(1), "harness: size in effect is 1");
    set_new_script([script(2, K_LIT), script(20, K_LIT), script(20, K_LIT), script(20, K_LIT)]);
    OBS_CIRC_CALLS.store(0, Relaxed);
    let mut rd = ArrReader::<24>::new(f, hlen + 8);
    let mut sink = RecSink::<4>::new();
    let r = crate::lzma_decompress_with_options(&mut rd, &mut sink, &opts);
    let ok = r.is_ok();
    forget(r);
    let ml_eff = if ml_some { ml } else { usize::MAX };
    vassert!(OBS_CIRC_CALLS.load(Relaxed) == 1, "one-shot entry: builds exactly one window");
    vassert!(OBS_CIRC_DICT.load(Relaxed) == if dict < 0x1000 { 0x1000 } else { dict as usize }, "one-shot entry: the window's dictionary size is the header's (at least 4096)");
    vassert!(OBS_CIRC_MEMLIMIT.load(Relaxed) == ml_eff, "one-shot entry: options.memlimit reaches the window (none = unlimited)");
    vassert!(ok, "one-shot entry: a well-formed sized stream decodes");
    if ok {
        vassert!(sink.len == 1 && sink.buf[0] == b[5] ^ b[6], "one-shot decoder: output delivered");
        vassert!(sink.flushes >= 1 && sink.flushed_len == 1, "one-shot decoder: sink flushed after the last byte");
        vassert!(rd.pos == hlen + 7, "one-shot decoder: reader left right after the payload (size-bounded decode)");
    }
    vcover!(ml_some && ml == 0, "limit_zero_passed_on");
    vcover!(dict < 0x1000, "small_dict_clamped");
}

//@ harness props=C10,C08,C11,C12 tier=quick unwind=10 unwindset=process_mode:5,default_read_exact:4,extend_with:3,lib_lzma_glue:10 mem_gb=6 timeout=600 native=no opt_covers=small_dict_clamped
//@ bound: lzma_decompress_with_options(ReadFromHeader) end to end on a 13-byte header (size field 1), dictionary size 0x800, preamble + one abstract 2-byte literal, symbolic memlimit option: window parameters observed
#[cfg_attr(kani, kani::proof)]
#[cfg_attr(kani, kani::stub(std::fmt::format, crate::verif_common::stub_format))]
#[cfg_attr(kani, kani::stub(std::io::Error::is_interrupted, crate::verif_common::stub_not_interrupted))]
#[cfg_attr(kani, kani::stub(crate::decode::lzma::DecoderState::process_next_inner, crate::decode::lzma::verif_h::abs_symbol))]
#[cfg_attr(kani, kani::stub(crate::decode::lzbuffer::LzCircularBuffer::from_stream, crate::decode::lzbuffer::verif_h::circ_from_stream_observed))]
#[cfg_attr(kani, kani::stub(crate::decode::lzma::DecoderState::new, crate::decode::lzma::verif_h::new_scripted_from_statics))]
pub fn lib_lzma_decompress_glue_from_header_d800() {
    lib_lzma_glue::<0, 0x800>()
}

//@ harness props=C10,C08,C11,C12 tier=quick unwind=10 unwindset=process_mode:5,default_read_exact:4,extend_with:3,lib_lzma_glue:10 mem_gb=6 timeout=600 native=no opt_covers=small_dict_clamped
//@ bound: lzma_decompress_with_options(ReadFromHeader) end to end on a 13-byte header (size field 1), dictionary size 0x12345678, preamble + one abstract 2-byte literal, symbolic memlimit option: window parameters observed
#[cfg_attr(kani, kani::proof)]
#[cfg_attr(kani, kani::stub(std::fmt::format, crate::verif_common::stub_format))]
#[cfg_attr(kani, kani::stub(std::io::Error::is_interrupted, crate::verif_common::stub_not_interrupted))]
#[cfg_attr(kani, kani::stub(crate::decode::lzma::DecoderState::process_next_inner, crate::decode::lzma::verif_h::abs_symbol))]
#[cfg_attr(kani, kani::stub(crate::decode::lzbuffer::LzCircularBuffer::from_stream, crate::decode::lzbuffer::verif_h::circ_from_stream_observed))]
#[cfg_attr(kani, kani::stub(crate::decode::lzma::DecoderState::new, crate::decode::lzma::verif_h::new_scripted_from_statics))]
pub fn lib_lzma_decompress_glue_from_header_d12345678() {
    lib_lzma_glue::<0, 0x12345678>()
}

//@ harness props=C10,C08,C11,C12 tier=quick unwind=10 unwindset=process_mode:5,default_read_exact:4,extend_with:3,lib_lzma_glue:10 mem_gb=6 timeout=600 native=no opt_covers=small_dict_clamped
//@ bound: lzma_decompress_with_options(UseProvided(Some(1))) end to end on a 5-byte header, dictionary size 0x800, preamble + one abstract 2-byte literal, symbolic memlimit option: window parameters observed
#[cfg_attr(kani, kani::proof)]
#[cfg_attr(kani, kani::stub(std::fmt::format, crate::verif_common::stub_format))]
#[cfg_attr(kani, kani::stub(std::io::Error::is_interrupted, crate::verif_common::stub_not_interrupted))]
#[cfg_attr(kani, kani::stub(crate::decode::lzma::DecoderState::process_next_inner, crate::decode::lzma::verif_h::abs_symbol))]
#[cfg_attr(kani, kani::stub(crate::decode::lzbuffer::LzCircularBuffer::from_stream, crate::decode::lzbuffer::verif_h::circ_from_stream_observed))]
#[cfg_attr(kani, kani::stub(crate::decode::lzma::DecoderState::new, crate::decode::lzma::verif_h::new_scripted_from_statics))]
pub fn lib_lzma_decompress_glue_use_provided_d800() {
    lib_lzma_glue::<2, 0x800>()
}

//@ harness props=C10,C08,C11,C12 tier=quick unwind=10 unwindset=process_mode:5,default_read_exact:4,extend_with:3,lib_lzma_glue:10 mem_gb=6 timeout=600 native=no opt_covers=small_dict_clamped
//@ bound: lzma_decompress_with_options(UseProvided(Some(1))) end to end on a 5-byte header, dictionary size 0x12345678, preamble + one abstract 2-byte literal, symbolic memlimit option: window parameters observed
#[cfg_attr(kani, kani::proof)]
#[cfg_attr(kani, kani::stub(std::fmt::format, crate::verif_common::stub_format))]
#[cfg_attr(kani, kani::stub(std::io::Error::is_interrupted, crate::verif_common::stub_not_interrupted))]
#[cfg_attr(kani, kani::stub(crate::decode::lzma::DecoderState::process_next_inner, crate::decode::lzma::verif_h::abs_symbol))]
#[cfg_attr(kani, kani::stub(crate::decode::lzbuffer::LzCircularBuffer::from_stream, crate::decode::lzbuffer::verif_h::circ_from_stream_observed))]
#[cfg_attr(kani, kani::stub(crate::decode::lzma::DecoderState::new, crate::decode::lzma::verif_h::new_scripted_from_statics))]
pub fn lib_lzma_decompress_glue_use_provided_d12345678() {
    lib_lzma_glue::<2, 0x12345678>()
}



//@ harness props=C09,C10,C14 tier=quick unwind=8 unwindset=process_mode:5,default_read_exact:4,extend_with:3 mem_gb=6 timeout=600 native=no
//@ bound: raw LzmaDecoder built with dictionary size 16 (below the header clamp) and a symbolic memlimit option: the window is created with exactly these parameters (constructor observed)
#[cfg_attr(kani, kani::proof)]
#[cfg_attr(kani, kani::stub(std::fmt::format, crate::verif_common::stub_format))]
#[cfg_attr(kani, kani::stub(std::io::Error::is_interrupted, crate::verif_common::stub_not_interrupted))]
#[cfg_attr(kani, kani::stub(crate::decode::lzma::DecoderState::process_next_inner, crate::decode::lzma::verif_h::abs_symbol))]
#[cfg_attr(kani, kani::stub(crate::decode::lzbuffer::LzCircularBuffer::from_stream, crate::decode::lzbuffer::verif_h::circ_from_stream_observed))]
#[cfg_attr(kani, kani::stub(crate::decode::lzma::DecoderState::new, crate::decode::lzma::verif_h::new_scripted_from_statics))]
pub fn raw_lzma_decompress_window_params() {
    use crate::decode::lzbuffer::verif_h::{OBS_CIRC_CALLS, OBS_CIRC_DICT, OBS_CIRC_MEMLIMIT};
    use std::sync::atomic::Ordering::Relaxed;
    let mut t = Tape::<32>::new();
    let f = [t.u8(), t.u8(), t.u8(), t.u8(), t.u8(), t.u8(), t.u8(), 0xEE];
    let ml_some = t.bool();
    let ml = t.usize();
    let mut dec = match mk_raw_decoder(16, Some(1), if ml_some { Some(ml) } else { None }, [script(2, K_LIT), script(20, K_LIT), script(20, K_LIT), script(20, K_LIT)]) {
        Some(d) => d,
        None => {
            vassert!(false, "raw decoder: the constructor accepts these parameters");
            return;
        }
    };
    OBS_CIRC_CALLS.store(0, Relaxed);
    let mut rd = ArrReader::<8>::new(f, 8);
    let mut sink = CountSink::new();
    let r = dec.decompress(&mut rd, &mut sink);
    forget(r);
    vassert!(OBS_CIRC_CALLS.load(Relaxed) == 1, "one-shot entry: builds exactly one window");
    vassert!(OBS_CIRC_DICT.load(Relaxed) == 16, "raw decoder: the window's dictionary size is the one the decoder was given (no clamp outside the header parser)");
    vassert!(OBS_CIRC_MEMLIMIT.load(Relaxed) == if ml_some { ml } else { usize::MAX }, "one-shot entry: options.memlimit reaches the window (none = unlimited)");
    vcover!(true, "end_reached");
    forget(dec);
}
