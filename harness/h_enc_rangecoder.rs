// Harnesses over src/encode/rangecoder.rs (child module: sees RangeEncoder's private fields).
#![allow(dead_code, unused_imports, unused_variables, unused_mut)]

use super::*;
use crate::decode::rangecoder::RangeDecoder;
use crate::verif_common::*;

pub const TOP: u32 = 0x0100_0000;

pub fn mk_encoder<'a, W: io::Write>(stream: &'a mut W, range: u32, low: u64, cache: u8, cachesz: u32) -> RangeEncoder<'a, W> {
    RangeEncoder {
        stream,
        range,
        low,
        cache,
        cachesz,
    }
}
pub fn enc_parts<'a, W: io::Write>(e: &RangeEncoder<'a, W>) -> (u32, u64, u8, u32) {
    (e.range, e.low, e.cache, e.cachesz)
}

//@ harness props=C04,C11 tier=quick unwind=6 mem_gb=4 timeout=900
//@ bound: coupling lemma: ONE real encode_bit x ONE real decode_bit from every encoder state (low<2^32, range>=2^24, cache, cachesz<=3), every prob in 31..=2017, both bit values, every stream window W inside the post-step interval, symbolic next byte
#[cfg_attr(kani, kani::proof)]
#[cfg_attr(kani, kani::stub(std::fmt::format, crate::verif_common::stub_format))]
#[cfg_attr(kani, kani::stub(std::io::Error::is_interrupted, crate::verif_common::stub_not_interrupted))]
pub fn enc_dec_coupling_step() {
    let mut t = Tape::<40>::new();
    let range = t.u32();
    let low = t.u32() as u64;
    let cache = t.u8();
    let cachesz = 1 + (t.u8() % 3) as u32;
    let p0 = t.u16();
    let bit = t.bool();
    let w = t.u64(); // the (33-bit) value of the final stream window at the decoder's position
    let nb = t.u8();
    assume(range >= TOP);
    assume(p0 >= 31 && p0 <= 2017);
    // encoder interval after the step, before normalisation
    let bound = ((range >> 11) as u64) * (p0 as u64);
    let (lo1, r1) = if bit { (low + bound, range as u64 - bound) } else { (low, bound) };
    assume(w >= lo1 && w < lo1 + r1);
    let code = (w - low) as u32; // decoder invariant: code = W - low, 0 <= code < range
    // --- real encoder step
    let mut sink = RecSink::<8>::new();
    let mut pe = p0;
    let (e_range, e_low, e_cache, e_cachesz, e_ok) = {
        let mut enc = mk_encoder(&mut sink, range, low, cache, cachesz);
        let r = enc.encode_bit(&mut pe, bit);
        let ok = r.is_ok();
        forget(r);
        (enc.range, enc.low, enc.cache, enc.cachesz, ok)
    };
    // --- real decoder step
    let mut rd = ArrReader::<1>::new([nb], 1);
    let mut pd = p0;
    let (d_bit, d_range, d_code, d_ok) = {
        let mut rc = RangeDecoder::from_parts(&mut rd, range, code);
        let r = rc.decode_bit(&mut pd, true);
        let (b, ok) = match &r {
            Ok(b) => (*b, true),
            Err(_) => (false, false),
        };
        forget(r);
        (b, rc.range, rc.code, ok)
    };
    vassert!(e_ok && d_ok, "coupling: both steps succeed");
    vassert!(d_bit == bit, "coupling: the decoder recovers the encoded bit");
    vassert!(pe == pd, "coupling: encoder and decoder adapt the probability identically");
    vassert!(e_range == d_range, "coupling: ranges stay equal");
    vassert!(e_range >= TOP, "coupling: range normalised after the step");
    let shifted = r1 < TOP as u64;
    vassert!(rd.pos == if shifted { 1 } else { 0 }, "coupling: decoder reads one byte exactly when the encoder shifts");
    // the stream window advances with the shift; the decoder invariant is re-established
    let w2: u64 = if shifted { ((w - lo1) << 8) | (nb as u64) } else { w - lo1 };
    vassert!(d_code as u64 == w2, "coupling: code' = W' - low' (decoder invariant re-established)");
    vassert!(d_code < d_range || shifted, "coupling: code < range preserved (without shift)");
    vassert!(e_low == if shifted { (lo1 << 8) & 0xFFFF_FFFF } else { lo1 }, "coupling: encoder low after the step");
    vcover!(shifted && bit && lo1 > 0xFFFF_FFFF, "carry_and_shift");
    vcover!(shifted && !bit, "shift_bit0");
    vcover!(!shifted, "no_shift");
}

/// Ghost value of the encoder's pending bytes: cache followed by (cachesz-1) 0xFF bytes.
fn pending_value(cache: u8, cachesz: u32) -> u64 {
    let mut v = cache as u64;
    let mut i = 1;
    while i < 7 {
        if i < cachesz {
            v = (v << 8) | 0xFF;
        }
        i += 1;
    }
    v
}

//@ harness props=C04,C12 tier=quick unwind=8 mem_gb=4 timeout=900
//@ bound: carry/cache lemma: ONE real write_low from every (low<2^33, cache, cachesz in 1..=6): emitted bytes and the new pending bytes represent the same number shifted by one byte
#[cfg_attr(kani, kani::proof)]
#[cfg_attr(kani, kani::stub(std::fmt::format, crate::verif_common::stub_format))]
#[cfg_attr(kani, kani::stub(std::io::Error::is_interrupted, crate::verif_common::stub_not_interrupted))]
pub fn enc_write_low_step() {
    let mut t = Tape::<24>::new();
    let low = t.u64();
    let cache = t.u8();
    let cachesz = 1 + (t.u8() % 6) as u32;
    assume(low < (1u64 << 33));
    // reachable states: a carry never meets an all-ones pending run (cache == 0xFF with carry
    // would need low + range to exceed the interval the pending bytes stand for)
    let carry = low >> 32;
    assume(!(cache == 0xFF && carry == 1));
    let mut sink = RecSink::<8>::new();
    let (n_low, n_cache, n_cachesz, ok) = {
        let mut enc = mk_encoder(&mut sink, 0xFFFF_FFFF, low, cache, cachesz);
        let r = enc.write_low();
        let ok = r.is_ok();
        forget(r);
        (enc.low, enc.cache, enc.cachesz, ok)
    };
    vassert!(ok, "write_low: succeeds on a healthy sink");
    vassert!(n_low == (low << 8) & 0xFFFF_FFFF, "write_low: low shifted by one byte, 32 bits kept");
    let settled = low < 0xFF00_0000 || low > 0xFFFF_FFFF;
    if settled {
        vassert!(sink.len == cachesz as usize, "write_low: emits exactly the pending bytes once they are settled");
        // emitted bytes = big-endian (pending + carry), cachesz bytes
        let pv = pending_value(cache, cachesz) + carry;
        let mut i = 0;
        while i < 6 {
            if i < cachesz as usize {
                let shift = 8 * (cachesz as usize - 1 - i);
                vassert!(sink.buf[i] == ((pv >> shift) & 0xFF) as u8, "write_low: emitted bytes are the pending bytes plus the carry");
            }
            i += 1;
        }
        vassert!(n_cache == ((low >> 24) & 0xFF) as u8 && n_cachesz == 1, "write_low: new pending byte is bits 24..31 of low");
        vcover!(carry == 1 && cachesz == 6, "carry_through_ff_run");
    } else {
        vassert!(sink.len == 0 && sink.writes == 0, "write_low: nothing emitted while a carry may still arrive");
        vassert!(n_cache == cache && n_cachesz == cachesz + 1, "write_low: the 0xFF byte joins the pending run");
        vcover!(true, "ff_pending");
    }
}

//@ harness props=C04,C12 tier=quick unwind=8 mem_gb=4 timeout=900
//@ bound: RangeEncoder::finish from every (low<2^32, cache, cachesz in 1..=3): emits cachesz+4 bytes = pending bytes then the four bytes of low (with carry folding), sink failing at a symbolic call index
#[cfg_attr(kani, kani::proof)]
#[cfg_attr(kani, kani::stub(std::fmt::format, crate::verif_common::stub_format))]
#[cfg_attr(kani, kani::stub(std::io::Error::is_interrupted, crate::verif_common::stub_not_interrupted))]
pub fn enc_finish_flush() {
    let mut t = Tape::<24>::new();
    let low = t.u32() as u64;
    let cache = t.u8();
    let cachesz = 1 + (t.u8() % 3) as u32;
    let fail_at = (t.u8() % 10) as usize;
    let mut sink = RecSink::<12>::failing(fail_at);
    let ok = {
        let mut enc = mk_encoder(&mut sink, 0xFFFF_FFFF, low, cache, cachesz);
        let r = enc.finish();
        let ok = r.is_ok();
        forget(r);
        ok
    };
    let total = cachesz as usize + 4;
    // every byte is written by its own write call: the k-th call failing means Err
    vassert!(ok == (fail_at >= total), "finish: Err iff one of its writes failed");
    if ok {
        vassert!(sink.len == total, "finish: flushes the pending bytes and all four bytes of low");
        // value check: the stream ends with the bytes of (pending, low) as one big-endian number
        let pv = pending_value(cache, cachesz);
        let mut i = 0;
        while i < 3 {
            if i < cachesz as usize {
                let shift = 8 * (cachesz as usize - 1 - i);
                vassert!(sink.buf[i] == ((pv >> shift) & 0xFF) as u8, "finish: pending bytes first");
            }
            i += 1;
        }
        let c = cachesz as usize;
        vassert!(
            sink.buf[c] == (low >> 24) as u8 && sink.buf[c + 1] == (low >> 16) as u8 && sink.buf[c + 2] == (low >> 8) as u8 && sink.buf[c + 3] == low as u8,
            "finish: then low, big-endian"
        );
        vcover!(cachesz == 3, "finish_long_pending");
    } else {
        vassert!(sink.len == fail_at && !sink.write_after_fail, "finish: bytes accepted before the failure are a prefix; nothing written after it");
        vcover!(true, "finish_sink_failed");
    }
}

//@ harness props=C04 tier=quick unwind=4 mem_gb=2 timeout=300 expect_fail=sanity
//@ bound: vacuity twin
#[cfg_attr(kani, kani::proof)]
pub fn enc_sanity_twin() {
    let mut t = Tape::<24>::new();
    let low = t.u32() as u64;
    let mut sink = RecSink::<8>::new();
    {
        let mut enc = mk_encoder(&mut sink, 0xFFFF_FFFF, low, 0, 1);
        let r = enc.write_low();
        forget(r);
    }
    vassert!(false, "sanity");
}

/// Recording stub for `RangeEncoder::encode_bit`: no arithmetic; reports (cell address, cell
/// value, bit) to the sink as one 11-byte write.
pub fn recording_encode_bit<'a, W>(enc: &mut RangeEncoder<'a, W>, prob: &mut u16, bit: bool) -> io::Result<()>
where
    W: io::Write,
    'a: 'a,
{
    let a = (prob as *mut u16 as usize).to_le_bytes();
    let v = (*prob).to_le_bytes();
    let rec = [a[0], a[1], a[2], a[3], a[4], a[5], a[6], a[7], v[0], v[1], bit as u8];
    match enc.stream.write(&rec) {
        Ok(_) => Ok(()),
        Err(e) => Err(e),
    }
}

// ---------------------------------------------------------------------------------------
// End-marker arithmetic. The dumb encoder codes the marker's 26 direct bits (and everything
// else after the match flag) with `encode_bit(&mut 0x400, ..)`, while the decoder reads the
// direct bits by halving `range`. Both agree because of a 2-adic invariant of `range`:
//     J(range):  range >= 2^24  and  trailing_zeros(range) >= 10 + t,
//                t = number of halvings until range < 2^24  ( = floor(log2 range) - 23 )
// Lemmas decided here on the real code (one step each):
//   E  any encode_bit at probability 0x400 from any range >= 2^24 leaves range' (before the
//      shift) a multiple of 2^10 and at most range/2 + 2^10; if the step shifts, J holds after
//      it. (So J holds after the first shift in a run of 0x400-decisions, and 11 such decisions
//      - is_rep, four length bits, six slot bits - always contain a shift: range < 2^32 and
//      each step at least halves it up to 2^10.)
//   D  from any state with J, encode_bit(0x400, true) is an exact halving, the decoder's
//      direct-bit step (`get(1)`) tied by code = W - low decodes 1, ranges stay equal, the
//      tie is re-established and J holds again.
// By induction J holds at each of the 26 direct bits, hence they are decoded as 1s and the
// decoder stays in step with the encoder (paper step; the four align bits and the slot / length
// bits use adaptive cells at 0x400 on both sides: the coupling lemma).
// ---------------------------------------------------------------------------------------
fn inv_j(range: u32) -> bool {
    if range < TOP {
        return false;
    }
    let t = (31 - range.leading_zeros()) - 23; // 1..=8
    range.trailing_zeros() >= 10 + t
}

//@ harness props=C04 tier=quick unwind=4 mem_gb=4 timeout=900
//@ bound: lemma E: ONE real encode_bit at probability 0x400 (either bit) from every (range >= 2^24, low < 2^32, cache, cachesz <= 3): 2^10 | range', range' <= range/2 + 2^10, and J(range') after a shift
#[cfg_attr(kani, kani::proof)]
#[cfg_attr(kani, kani::stub(std::fmt::format, crate::verif_common::stub_format))]
#[cfg_attr(kani, kani::stub(std::io::Error::is_interrupted, crate::verif_common::stub_not_interrupted))]
pub fn enc_marker_lemma_e() {
    let mut t = Tape::<24>::new();
    let range = t.u32();
    let low = t.u32() as u64;
    let cache = t.u8();
    let cachesz = 1 + (t.u8() % 3) as u32;
    let bit = t.bool();
    assume(range >= TOP);
    let mut sink = RecSink::<8>::new();
    let mut p = 0x400u16;
    let (r2, ok) = {
        let mut enc = mk_encoder(&mut sink, range, low, cache, cachesz);
        let r = enc.encode_bit(&mut p, bit);
        let ok = r.is_ok();
        forget(r);
        (enc.range, ok)
    };
    vassert!(ok, "lemma E: encode_bit succeeds");
    let half_ish = ((range >> 11) as u64) << 10;
    let pre = if bit { range as u64 - half_ish } else { half_ish };
    vassert!(pre % 1024 == 0 || bit, "lemma E: a 0-bit at probability 0x400 leaves a multiple of 2^10");
    vassert!(pre <= (range as u64 >> 1) + 1024, "lemma E: a decision at probability 0x400 at least halves range (up to 2^10)");
    let shifted = pre < TOP as u64;
    vassert!(r2 as u64 == if shifted { pre << 8 } else { pre }, "lemma E: at most one shift");
    if range % 1024 == 0 {
        vassert!(pre % 1024 == 0, "lemma E: multiples of 2^10 stay multiples of 2^10");
    }
    if shifted && pre % 1024 == 0 {
        vassert!(inv_j(r2), "lemma E: a shift of a multiple of 2^10 establishes the invariant J");
    }
    vcover!(shifted && range % 1024 == 0, "shift_establishes_j");
}

//@ harness props=C04 tier=quick unwind=4 mem_gb=4 timeout=900
//@ bound: lemma D: from every encoder state with J(range) (low < 2^32, cache, cachesz <= 3) ONE real encode_bit(&mut 0x400, true) vs ONE real decoder direct bit get(1) tied by code = W - low, symbolic next byte
#[cfg_attr(kani, kani::proof)]
#[cfg_attr(kani, kani::stub(std::fmt::format, crate::verif_common::stub_format))]
#[cfg_attr(kani, kani::stub(std::io::Error::is_interrupted, crate::verif_common::stub_not_interrupted))]
pub fn enc_marker_lemma_d() {
    let mut t = Tape::<40>::new();
    let range = t.u32();
    let low = t.u32() as u64;
    let cache = t.u8();
    let cachesz = 1 + (t.u8() % 3) as u32;
    let w = t.u64();
    let nb = t.u8();
    assume(inv_j(range));
    // encoder interval after coding a 1 at probability 0x400
    let bound = ((range >> 11) as u64) << 10;
    let lo1 = low + bound;
    let r1 = range as u64 - bound;
    assume(w >= lo1 && w < lo1 + r1);
    let code = (w - low) as u32;
    let mut sink = RecSink::<8>::new();
    let mut p = 0x400u16;
    let (e_range, e_low) = {
        let mut enc = mk_encoder(&mut sink, range, low, cache, cachesz);
        let r = enc.encode_bit(&mut p, true);
        forget(r);
        (enc.range, enc.low)
    };
    let mut rd = ArrReader::<1>::new([nb], 1);
    let (d_val, d_range, d_code, d_ok) = {
        let mut rc = RangeDecoder::from_parts(&mut rd, range, code);
        let r = rc.get(1);
        let (v, ok) = match &r {
            Ok(v) => (*v, true),
            Err(_) => (0, false),
        };
        forget(r);
        (v, rc.range, rc.code, ok)
    };
    vassert!(bound == (range as u64) >> 1, "lemma D: under J the probability-0x400 split is an exact halving");
    vassert!(d_ok && d_val == 1, "lemma D: the decoder's direct bit reads the 1 the encoder wrote with probability 0x400");
    vassert!(e_range == d_range, "lemma D: ranges stay equal");
    let shifted = r1 < TOP as u64;
    let w2: u64 = if shifted { ((w - lo1) << 8) | (nb as u64) } else { w - lo1 };
    vassert!(d_code as u64 == w2, "lemma D: code' = W' - low' (tie re-established)");
    vassert!(inv_j(e_range), "lemma D: J is re-established");
    vassert!(rd.pos == if shifted { 1 } else { 0 }, "lemma D: one byte read exactly when the encoder shifts");
    vcover!(shifted, "direct_bit_with_shift");
    vcover!(!shifted, "direct_bit_without_shift");
}
