// Harnesses over src/encode/xz.rs: the bytes xz_compress writes equal the canonical .xz file
// (stream header, one block with an LZMA2 filter and no check, index, footer) built by the
// harness from the xz file-format specification with an independent bitwise CRC-32.
#![allow(dead_code, unused_imports, unused_variables, unused_mut)]

use super::*;
use crate::verif_common::*;

fn put(dst: &mut [u8; 96], n: &mut usize, bytes: &[u8]) {
    let mut i = 0;
    while i < bytes.len() {
        dst[*n] = bytes[i];
        *n += 1;
        i += 1;
    }
}

/// canonical file for `data[..N]`; returns its length
fn canonical_xz<const N: usize>(data: &[u8; N], out: &mut [u8; 96]) -> usize {
    let mut n = 0usize;
    put(out, &mut n, &[0xFD, 0x37, 0x7A, 0x58, 0x5A, 0x00]);
    put(out, &mut n, &[0x00, 0x00]);
    let c = ref_crc32(&[0x00, 0x00]).to_le_bytes();
    put(out, &mut n, &c);
    // block header: size byte (8 >> 2 ... real size 12 = (2+1)*4), flags, filter id, props size, props, padding
    let bh = [0x02u8, 0x00, 0x21, 0x01, 22, 0, 0, 0];
    let block_start = n;
    put(out, &mut n, &bh);
    let c = ref_crc32(&bh).to_le_bytes();
    put(out, &mut n, &c);
    // LZMA2 payload
    if N > 0 {
        put(out, &mut n, &[1, ((N - 1) >> 8) as u8, (N - 1) as u8]);
        put(out, &mut n, &data[..]);
    }
    put(out, &mut n, &[0]);
    let unpadded = n - block_start;
    while (n - block_start) % 4 != 0 {
        put(out, &mut n, &[0]);
    }
    // index
    let index_start = n;
    put(out, &mut n, &[0x00, 0x01]);
    put(out, &mut n, &[unpadded as u8]); // < 128 here
    put(out, &mut n, &[N as u8]);
    while (n - index_start) % 4 != 0 {
        put(out, &mut n, &[0]);
    }
    let mut idx = [0u8; 8];
    let mut i = 0;
    let ilen = n - index_start;
    while i < ilen {
        idx[i] = out[index_start + i];
        i += 1;
    }
    let c = ref_crc32(&idx[..ilen]).to_le_bytes();
    put(out, &mut n, &c);
    let index_size = n - index_start;
    // footer
    let bs = ((index_size / 4 - 1) as u32).to_le_bytes();
    let ft = [bs[0], bs[1], bs[2], bs[3], 0x00, 0x00];
    let c = ref_crc32(&ft).to_le_bytes();
    put(out, &mut n, &c);
    put(out, &mut n, &ft);
    put(out, &mut n, &[0x59, 0x5A]);
    n
}

/// SHORT: 0 = sink accepts everything, k > 0 = sink accepts at most k bytes per write call
/// FAIL: index of the failing write (usize::MAX = never)
fn xz_writer<const N: usize, const SHORT: usize, const FAIL: usize>() {
    let mut t = Tape::<16>::new();
    let data: [u8; N] = t.bytes::<N>();
    let mut rd = ArrReader::<N>::new(data, N);
    let mut sink = RecSink::<96>::failing(FAIL);
    sink.short = SHORT;
    let r = encode_stream(&mut rd, &mut sink);
    let ok = r.is_ok();
    forget(r);
    let mut exp = [0u8; 96];
    let n = canonical_xz::<N>(&data, &mut exp);
    let q = (t.u8() as usize) % 96;
    if FAIL == usize::MAX {
        vassert!(ok, "xz writer: succeeds on a healthy sink");
        vassert!(sink.len == n && !sink.overflow, "xz writer: output length equals the canonical file (every byte reaches a sink that accepts partial writes)");
        if q < n {
            vassert!(sink.buf[q] == exp[q], "xz writer: output equals the canonical .xz file byte for byte");
        }
        vassert!(rd.pos == N, "xz writer: consumes the whole input");
        vcover!(true, "xz_writer_ok");
    } else {
        vassert!(!ok, "xz writer: a failing sink is reported");
        vassert!(!sink.write_after_fail, "xz writer: nothing is written after a failure");
        if q < sink.len {
            vassert!(sink.len <= n && sink.buf[q] == exp[q], "xz writer: bytes accepted before the failure are a prefix of the correct output");
        }
        vcover!(true, "xz_writer_failed");
    }
    vcover!(true, "end_reached");
}

//@ harness props=C04,C12 tier=quick unwind=10 unwindset=update_table:10,put:97,canonical_xz:10,write_multibyte:4,encode_stream:5,RecSink.*write_all:12 mem_gb=6 timeout=900 opt_covers=xz_writer_failed
//@ bound: xz_compress on 3 symbolic bytes, healthy sink
#[cfg_attr(kani, kani::proof)]
#[cfg_attr(kani, kani::stub(std::fmt::format, crate::verif_common::stub_format))]
#[cfg_attr(kani, kani::stub(std::io::Error::is_interrupted, crate::verif_common::stub_not_interrupted))]
pub fn xz_writer_n3() {
    xz_writer::<3, 0, 18446744073709551615>()
}

//@ harness props=C04,C12 tier=quick unwind=10 unwindset=update_table:10,put:97,canonical_xz:10,write_multibyte:4,encode_stream:5,RecSink.*write_all:12 mem_gb=6 timeout=900 opt_covers=xz_writer_failed
//@ bound: xz_compress on 0 symbolic bytes, empty input
#[cfg_attr(kani, kani::proof)]
#[cfg_attr(kani, kani::stub(std::fmt::format, crate::verif_common::stub_format))]
#[cfg_attr(kani, kani::stub(std::io::Error::is_interrupted, crate::verif_common::stub_not_interrupted))]
pub fn xz_writer_n0() {
    xz_writer::<0, 0, 18446744073709551615>()
}

//@ harness props=C04,C12 tier=quick unwind=10 unwindset=update_table:10,put:97,canonical_xz:10,write_multibyte:4,encode_stream:5,RecSink.*write_all:12 mem_gb=6 timeout=900 opt_covers=xz_writer_failed
//@ bound: xz_compress on 1 symbolic bytes, healthy sink
#[cfg_attr(kani, kani::proof)]
#[cfg_attr(kani, kani::stub(std::fmt::format, crate::verif_common::stub_format))]
#[cfg_attr(kani, kani::stub(std::io::Error::is_interrupted, crate::verif_common::stub_not_interrupted))]
pub fn xz_writer_n1() {
    xz_writer::<1, 0, 18446744073709551615>()
}

//@ harness props=C04,C12 tier=quick unwind=10 unwindset=update_table:10,put:97,canonical_xz:10,write_multibyte:4,encode_stream:5,RecSink.*write_all:12 mem_gb=6 timeout=900 opt_covers=xz_writer_failed
//@ bound: xz_compress on 2 symbolic bytes, sink accepting one byte per write
#[cfg_attr(kani, kani::proof)]
#[cfg_attr(kani, kani::stub(std::fmt::format, crate::verif_common::stub_format))]
#[cfg_attr(kani, kani::stub(std::io::Error::is_interrupted, crate::verif_common::stub_not_interrupted))]
pub fn xz_writer_n2_short1() {
    xz_writer::<2, 1, 18446744073709551615>()
}

//@ harness props=C04,C12 tier=quick unwind=10 unwindset=update_table:10,put:97,canonical_xz:10,write_multibyte:4,encode_stream:5,RecSink.*write_all:12 mem_gb=6 timeout=900 opt_covers=xz_writer_ok
//@ bound: xz_compress on 3 symbolic bytes, sink failing on write 0
#[cfg_attr(kani, kani::proof)]
#[cfg_attr(kani, kani::stub(std::fmt::format, crate::verif_common::stub_format))]
#[cfg_attr(kani, kani::stub(std::io::Error::is_interrupted, crate::verif_common::stub_not_interrupted))]
pub fn xz_writer_n3_fail0() {
    xz_writer::<3, 0, 0>()
}

//@ harness props=C04,C12 tier=quick unwind=10 unwindset=update_table:10,put:97,canonical_xz:10,write_multibyte:4,encode_stream:5,RecSink.*write_all:12 mem_gb=6 timeout=900 opt_covers=xz_writer_ok
//@ bound: xz_compress on 3 symbolic bytes, sink failing on write 5
#[cfg_attr(kani, kani::proof)]
#[cfg_attr(kani, kani::stub(std::fmt::format, crate::verif_common::stub_format))]
#[cfg_attr(kani, kani::stub(std::io::Error::is_interrupted, crate::verif_common::stub_not_interrupted))]
pub fn xz_writer_n3_fail5() {
    xz_writer::<3, 0, 5>()
}

//@ harness props=C04,C12 tier=quick unwind=10 unwindset=update_table:10,put:97,canonical_xz:10,write_multibyte:4,encode_stream:5,RecSink.*write_all:12 mem_gb=6 timeout=900 opt_covers=xz_writer_ok
//@ bound: xz_compress on 3 symbolic bytes, sink failing on write 12
#[cfg_attr(kani, kani::proof)]
#[cfg_attr(kani, kani::stub(std::fmt::format, crate::verif_common::stub_format))]
#[cfg_attr(kani, kani::stub(std::io::Error::is_interrupted, crate::verif_common::stub_not_interrupted))]
pub fn xz_writer_n3_fail12() {
    xz_writer::<3, 0, 12>()
}

//@ harness props=C04,C12 tier=thorough unwind=10 unwindset=update_table:10,put:97,canonical_xz:10,write_multibyte:4,encode_stream:5,RecSink.*write_all:12 mem_gb=6 timeout=900 opt_covers=xz_writer_ok
//@ bound: xz_compress on 3 symbolic bytes, sink failing on write 20
#[cfg_attr(kani, kani::proof)]
#[cfg_attr(kani, kani::stub(std::fmt::format, crate::verif_common::stub_format))]
#[cfg_attr(kani, kani::stub(std::io::Error::is_interrupted, crate::verif_common::stub_not_interrupted))]
pub fn xz_writer_n3_fail20() {
    xz_writer::<3, 0, 20>()
}


/// write_index called directly with concrete sizes (a symbolic size makes the multibyte
/// length, hence the sink offset of everything after it, symbolic: out of memory).
fn write_index_unit<const UNPADDED: usize, const UNPACKED: usize>() {
    let mut sink = RecSink::<16>::new();
    let r = write_index(&mut sink, UNPADDED, UNPACKED);
    let n = match &r {
        Ok(n) => *n,
        Err(_) => usize::MAX,
    };
    forget(r);
    let l1 = if UNPADDED < 128 { 1 } else { 2 };
    let l2 = if UNPACKED < 128 { 1 } else { 2 };
    let body = 2 + l1 + l2;
    let pad = (4 - body % 4) % 4;
    vassert!(n == body + pad + 4, "xz index: size = indicator + count + two multibyte fields + padding to a multiple of four + CRC32");
    vassert!(sink.len == n && !sink.overflow, "xz index: returns the number of bytes it wrote");
    vassert!(sink.buf[0] == 0 && sink.buf[1] == 1, "xz index: indicator 0x00, one record");
    let a = if l1 == 1 { sink.buf[2] as usize } else { ((sink.buf[2] & 0x7F) as usize) | ((sink.buf[3] as usize) << 7) };
    let o = 2 + l1;
    let b = if l2 == 1 { sink.buf[o] as usize } else { ((sink.buf[o] & 0x7F) as usize) | ((sink.buf[o + 1] as usize) << 7) };
    vassert!(a == UNPADDED && b == UNPACKED, "xz index: unpadded and uncompressed sizes as minimal multibyte integers");
    let mut q = 0;
    while q < pad {
        vassert!(sink.buf[body + q] == 0, "xz index: padding bytes are zero");
        q += 1;
    }
    let crc = u32::from_le_bytes([sink.buf[body + pad], sink.buf[body + pad + 1], sink.buf[body + pad + 2], sink.buf[body + pad + 3]]);
    vassert!(crc == ref_crc32(&sink.buf[0..body + pad]), "xz index: CRC32 over indicator, records and padding");
    vcover!(true, "end_reached");
}

//@ harness props=C04 tier=quick unwind=12 unwindset=update_table:12,write_multibyte:4,RecSink.*write_all:12,ref_crc32:12 mem_gb=4 timeout=600
//@ bound: write_index directly with unpadded size 19 and uncompressed size 3 (multibyte lengths 1 and 1)
#[cfg_attr(kani, kani::proof)]
#[cfg_attr(kani, kani::stub(std::fmt::format, crate::verif_common::stub_format))]
#[cfg_attr(kani, kani::stub(std::io::Error::is_interrupted, crate::verif_common::stub_not_interrupted))]
pub fn xz_write_index_19_3() {
    write_index_unit::<19, 3>()
}

//@ harness props=C04 tier=quick unwind=12 unwindset=update_table:12,write_multibyte:4,RecSink.*write_all:12,ref_crc32:12 mem_gb=4 timeout=600
//@ bound: write_index directly with unpadded size 300 and uncompressed size 5 (multibyte lengths 2 and 1)
#[cfg_attr(kani, kani::proof)]
#[cfg_attr(kani, kani::stub(std::fmt::format, crate::verif_common::stub_format))]
#[cfg_attr(kani, kani::stub(std::io::Error::is_interrupted, crate::verif_common::stub_not_interrupted))]
pub fn xz_write_index_300_5() {
    write_index_unit::<300, 5>()
}

//@ harness props=C04 tier=quick unwind=12 unwindset=update_table:12,write_multibyte:4,RecSink.*write_all:12,ref_crc32:12 mem_gb=4 timeout=600
//@ bound: write_index directly with unpadded size 5 and uncompressed size 300 (multibyte lengths 1 and 2)
#[cfg_attr(kani, kani::proof)]
#[cfg_attr(kani, kani::stub(std::fmt::format, crate::verif_common::stub_format))]
#[cfg_attr(kani, kani::stub(std::io::Error::is_interrupted, crate::verif_common::stub_not_interrupted))]
pub fn xz_write_index_5_300() {
    write_index_unit::<5, 300>()
}

//@ harness props=C04 tier=quick unwind=12 unwindset=update_table:12,write_multibyte:4,RecSink.*write_all:12,ref_crc32:12 mem_gb=4 timeout=600
//@ bound: write_index directly with unpadded size 300 and uncompressed size 300 (multibyte lengths 2 and 2)
#[cfg_attr(kani, kani::proof)]
#[cfg_attr(kani, kani::stub(std::fmt::format, crate::verif_common::stub_format))]
#[cfg_attr(kani, kani::stub(std::io::Error::is_interrupted, crate::verif_common::stub_not_interrupted))]
pub fn xz_write_index_300_300() {
    write_index_unit::<300, 300>()
}

//@ harness props=C04 tier=quick unwind=12 unwindset=update_table:12,write_multibyte:4,RecSink.*write_all:12,ref_crc32:12 mem_gb=4 timeout=600
//@ bound: write_index directly with unpadded size 16383 and uncompressed size 127 (multibyte lengths 2 and 1)
#[cfg_attr(kani, kani::proof)]
#[cfg_attr(kani, kani::stub(std::fmt::format, crate::verif_common::stub_format))]
#[cfg_attr(kani, kani::stub(std::io::Error::is_interrupted, crate::verif_common::stub_not_interrupted))]
pub fn xz_write_index_16383_127() {
    write_index_unit::<16383, 127>()
}


//@ harness props=C04,C03 tier=quick unwind=12 unwindset=write_multibyte:11,get_multibyte:11,default_read_exact:4,RecSink.*write_all:4 mem_gb=6 timeout=900
//@ bound: write_multibyte (encoder) then get_multibyte (decoder) on ANY value below 2^63 (1..9 encoded bytes): the decoder returns the value and consumes exactly what the encoder wrote; encoding is minimal
#[cfg_attr(kani, kani::proof)]
#[cfg_attr(kani, kani::stub(std::fmt::format, crate::verif_common::stub_format))]
#[cfg_attr(kani, kani::stub(std::io::Error::is_interrupted, crate::verif_common::stub_not_interrupted))]
pub fn xz_multibyte_roundtrip() {
    let mut t = Tape::<16>::new();
    let v = t.u64() >> 1;
    let mut sink = RecSink::<12>::new();
    let r = write_multibyte(&mut sink, v);
    let wrote_ok = r.is_ok();
    forget(r);
    vassert!(wrote_ok && !sink.overflow, "xz multibyte: writing succeeds on a healthy sink");
    let n = sink.len;
    vassert!(n >= 1 && n <= 9, "xz multibyte: 1..9 bytes for a value below 2^63");
    let mut rd = ArrReader::<12>::new(sink.buf, n);
    let g = crate::decode::xz::get_multibyte(&mut rd);
    match &g {
        Ok(x) => {
            vassert!(*x == v, "xz multibyte: the decoder reads back the value the encoder wrote");
            vassert!(rd.pos == n, "xz multibyte: the decoder consumes exactly the bytes the encoder wrote");
        }
        Err(_) => {
            vassert!(false, "xz multibyte: every value the encoder can write is accepted by the decoder");
        }
    }
    vassert!(n == 1 || sink.buf[n - 1] != 0, "xz multibyte: minimal encoding (no trailing zero group)");
    vcover!(n == 9, "nine_byte_value");
    vcover!(n == 4, "four_byte_value");
    forget(g);
}


//@ harness props=C12,C04 tier=quick unwind=12 unwindset=update_table:12,write_multibyte:4,RecSink.*write_all:12,ref_crc32:12 mem_gb=4 timeout=600
//@ bound: write_index directly with unpadded size 300 and uncompressed size 5 (3 padding bytes) into a sink that accepts ONE byte per write call: every byte (records, padding, CRC32) reaches the sink
#[cfg_attr(kani, kani::proof)]
#[cfg_attr(kani, kani::stub(std::fmt::format, crate::verif_common::stub_format))]
#[cfg_attr(kani, kani::stub(std::io::Error::is_interrupted, crate::verif_common::stub_not_interrupted))]
pub fn xz_write_index_short_sink() {
    let mut sink = RecSink::<16>::new();
    sink.short = 1;
    let r = write_index(&mut sink, 300, 5);
    let n = match &r {
        Ok(n) => *n,
        Err(_) => usize::MAX,
    };
    forget(r);
    // indicator, count, 2-byte size, 1-byte size = 5 bytes, 3 padding, 4 CRC
    vassert!(n == 12, "xz index: size = indicator + count + two multibyte fields + padding to a multiple of four + CRC32");
    vassert!(sink.len == 12 && !sink.overflow, "xz index: every byte reaches a sink that accepts only part of each write");
    vassert!(sink.buf[0] == 0 && sink.buf[1] == 1 && sink.buf[2] == 0xAC && sink.buf[3] == 0x02 && sink.buf[4] == 5, "xz index: indicator 0x00, one record, sizes as multibyte integers");
    vassert!(sink.buf[5] == 0 && sink.buf[6] == 0 && sink.buf[7] == 0, "xz index: padding bytes are zero");
    let crc = u32::from_le_bytes([sink.buf[8], sink.buf[9], sink.buf[10], sink.buf[11]]);
    vassert!(crc == ref_crc32(&sink.buf[0..8]), "xz index: CRC32 over indicator, records and padding");
    vcover!(true, "end_reached");
}
