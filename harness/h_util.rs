// Harnesses over src/decode/util.rs: reader-facing helpers under fragmenting / failing readers.
#![allow(dead_code, unused_imports, unused_variables, unused_mut)]

use super::*;
use crate::verif_common::*;
use std::io::{BufRead, Read};

//@ harness props=C12,C13,C07 tier=quick unwind=8 mem_gb=3 timeout=300
//@ bound: is_eof on a reader whose fill_buf fails / succeeds, 0 or 1 byte left
#[cfg_attr(kani, kani::proof)]
#[cfg_attr(kani, kani::stub(std::fmt::format, crate::verif_common::stub_format))]
#[cfg_attr(kani, kani::stub(std::io::Error::is_interrupted, crate::verif_common::stub_not_interrupted))]
pub fn io_is_eof_failing_reader() {
    let mut t = Tape::<8>::new();
    let left = (t.u8() & 1) as usize;
    let fail = t.bool();
    let mut rd = FailReader::<1>::new([t.u8()], left, if fail { 0 } else { usize::MAX });
    let r = is_eof(&mut rd);
    match &r {
        Ok(e) => {
            vassert!(!fail, "is_eof: a failing source is an error, never 'end of input'");
            vassert!(*e == (left == 0), "is_eof: true iff no byte is left");
        }
        Err(_) => {
            vassert!(fail, "is_eof: Err only when the source failed");
        }
    }
    vcover!(r.is_err(), "eof_probe_failed");
    vcover!(r.is_ok(), "eof_probe_ok");
    forget(r);
}

//@ harness props=C13,C03,C07 tier=quick unwind=10 unwindset=flush_zero_padding:8 mem_gb=4 timeout=600
//@ bound: flush_zero_padding on 6 symbolic bytes (0..6 available) delivered in symbolic fragments of 1..3 bytes vs all at once
#[cfg_attr(kani, kani::proof)]
#[cfg_attr(kani, kani::stub(std::fmt::format, crate::verif_common::stub_format))]
#[cfg_attr(kani, kani::stub(std::io::Error::is_interrupted, crate::verif_common::stub_not_interrupted))]
pub fn io_flush_zero_padding_fragmented() {
    let mut t = Tape::<24>::new();
    let f: [u8; 6] = t.bytes::<6>();
    let cuts: [u8; 8] = t.bytes::<8>();
    let n = (t.u8() % 7) as usize;
    let mut whole = ArrReader::<6>::new(f, n);
    let mut frag = FragReader::<6, 8>::new(f, n, cuts, 3);
    let a = flush_zero_padding(&mut whole);
    let b = flush_zero_padding(&mut frag);
    let mut all_zero = true;
    let mut i = 0;
    while i < 6 {
        if i < n && f[i] != 0 {
            all_zero = false;
        }
        i += 1;
    }
    match (&a, &b) {
        (Ok(x), Ok(y)) => {
            vassert!(*x == all_zero, "flush_zero_padding: true iff every remaining byte is zero");
            vassert!(*x == *y, "flush_zero_padding: verdict independent of how the reader fragments its data");
            if *x {
                vassert!(whole.pos == n && frag.pos == n, "flush_zero_padding: consumes all the padding under every fragmentation");
            }
        }
        _ => {
            vassert!(false, "flush_zero_padding: never fails on healthy readers");
        }
    }
    vcover!(all_zero && n == 6, "six_zero_bytes");
    vcover!(!all_zero, "nonzero_padding");
    forget(a);
    forget(b);
}

//@ harness props=C13,C03,C11 tier=quick unwind=10 unwindset=default_read_exact:8 mem_gb=4 timeout=600
//@ bound: read_tag(6-byte tag) and CountBufRead on 8 symbolic bytes delivered in symbolic fragments of 1..3 bytes vs all at once
#[cfg_attr(kani, kani::proof)]
#[cfg_attr(kani, kani::stub(std::fmt::format, crate::verif_common::stub_format))]
#[cfg_attr(kani, kani::stub(std::io::Error::is_interrupted, crate::verif_common::stub_not_interrupted))]
pub fn io_read_tag_fragmented() {
    let mut t = Tape::<24>::new();
    let f: [u8; 8] = t.bytes::<8>();
    let cuts: [u8; 8] = t.bytes::<8>();
    let tag = [0xFDu8, 0x37, 0x7A, 0x58, 0x5A, 0x00];
    let mut whole = ArrReader::<8>::new(f, 8);
    let mut frag = FragReader::<8, 8>::new(f, 8, cuts, 3);
    let a = read_tag(&mut whole, &tag);
    let (b, counted) = {
        let mut c = CountBufRead::new(&mut frag);
        let b = read_tag(&mut c, &tag);
        (b, c.count())
    };
    let mut eq = true;
    let mut i = 0;
    while i < 6 {
        if f[i] != tag[i] {
            eq = false;
        }
        i += 1;
    }
    match (&a, &b) {
        (Ok(x), Ok(y)) => {
            vassert!(*x == eq && *y == eq, "read_tag: true iff the next bytes equal the tag, under every fragmentation");
            vassert!(whole.pos == 6 && frag.pos == 6 && counted == 6, "read_tag: consumes (and CountBufRead counts) exactly the tag length");
        }
        _ => {
            vassert!(false, "read_tag: never fails when enough bytes exist");
        }
    }
    vcover!(eq, "tag_matches");
    forget(a);
    forget(b);
}
