// Harnesses over src/decode/lzma2.rs: the real chunk loop (decompress, parse_lzma,
// parse_uncompressed, the real LzAccumBuffer and Take reader) with abstract symbols in place of
// process_next_inner and an observing stub in place of reset_state (reset_state == new is
// decided separately in the C14 harnesses).
#![allow(dead_code, unused_imports, unused_variables, unused_mut)]

use super::*;
use crate::decode::lzma::verif_h::{abs_fold, light_state, script, K_BAD, K_LIT, K_MARKER, K_WIDE};
use crate::verif_common::*;

/// Observing stand-in for DecoderState::reset_state: installs the new properties and counts
/// the call in a probability cell nothing else touches under abstract symbols. The symbol
/// script (d.rep / d.state) is harness metadata and is left alone.
pub fn observing_reset_state(d: &mut DecoderState, new_props: LzmaProperties) {
    d.lzma_props = new_props;
    crate::decode::lzma::verif_h::note_reset(d);
}

fn mk_decoder(sc: [usize; 4]) -> Lzma2Decoder {
    let mut st = light_state::<0>(LzmaProperties { lc: 0, lp: 0, pb: 0 }, None);
    crate::decode::lzma::verif_h::set_script(&mut st, sc);
    Lzma2Decoder { lzma_state: st }
}

/// One LZMA chunk of CLASS (control bits 5-6) carrying NS abstract literal symbols of L bytes,
/// declared compressed size = real size + PD (PD may be negative: payload needs more than
/// declared), then the end byte and one trailing byte that must stay unread.
/// Symbolic: low 16 bits of the unpacked-size field, property byte, preamble, payload.
fn one_lzma_chunk<const CLASS: usize, const NS: usize, const L: usize, const PD: isize, const UD: isize, const PROPS: u8>() {
    let mut t = Tape::<64>::new();
    // the control byte is concrete per instance: a symbolic one makes every chunk kind
    // reachable in every iteration of the chunk loop (measured: no answer). Its arithmetic is
    // decided on parse_lzma directly (lzma2_parse_lzma_status_*).
    let hi5: u8 = 0;
    // every header field is concrete per instance: a data-dependent early return or loop exit
    // is merged back by the symbolic-execution engine with a symbolic reader offset, after which
    // every chunk kind is reachable at every offset (measured: no answer in 10 min). The field
    // arithmetic for all values is decided on parse_lzma directly (lzma2_parse_lzma_fields_*).
    let ulo = (NS as isize - 1 + UD) as u16;
    let props = PROPS;
    let body: [u8; 24] = t.bytes::<24>();
    // the loop may not stop early at a data-dependent place: everything after it would be
    // parsed from a symbolic offset (symbolic layout - measured to explode). Declared sizes
    // smaller than what the script produces are covered by the three-byte-symbol instances.
    let real_packed = 5 + NS * L;
    let declared = (real_packed as isize + PD) as usize;
    let has_props = CLASS >= 2;
    let mut f = [0u8; 40];
    let mut n = 0usize;
    f[n] = 0x80 | ((CLASS as u8) << 5) | hi5;
    n += 1;
    f[n] = (ulo >> 8) as u8;
    f[n + 1] = ulo as u8;
    n += 2;
    f[n] = ((declared - 1) >> 8) as u8;
    f[n + 1] = (declared - 1) as u8;
    n += 2;
    if has_props {
        f[n] = props;
        n += 1;
    }
    let payload_at = n;
    let mut i = 0;
    while i < real_packed {
        f[n] = body[i];
        n += 1;
        i += 1;
    }
    f[n] = 0; // end of LZMA2 stream
    let end_at = n;
    n += 1;
    f[n] = 0x03; // trailing byte (an invalid control byte: if it were ever parsed, decoding fails at once)
    n += 1;
    let mut dec = mk_decoder([script(L, K_LIT); 4]);
    let mut rd = ArrReader::<40>::new(f, n);
    let mut sink = RecSink::<8>::new();
    let r = dec.decompress(&mut rd, &mut sink);
    let ok = r.is_ok();
    forget(r);
    let unpacked = ((((hi5 as u64) << 16) | (ulo as u64)) + 1) as usize;
    let lc = (props as u32) % 9;
    let lp = ((props as u32) / 9) % 5;
    let pb = (props as u32) / 45;
    let props_ok = !has_props || ((props as u32) < 225 && lc + lp <= 4);
    let expect_ok = props_ok && PD >= 0 && unpacked == NS;
    if PD == 0 {
        vassert!(ok == expect_ok, "lzma2: one LZMA chunk decodes iff properties are legal and it produces exactly the declared size");
    } else {
        // PD < 0: the payload needs more input than declared; PD > 0: declared size larger
        // than the payload (the property does not name this case: only Ok => exact is checked)
        if PD < 0 {
            vassert!(!ok, "lzma2: a chunk whose payload needs more than its declared compressed size is rejected");
        }
        if PD == 1 && expect_ok {
            // one byte of slack: the decoder does not skip it - it is the next control byte
            // (here the end byte), so the stream still ends right there
            vassert!(ok, "lzma2: bytes of a chunk's declared compressed size that the coder did not need are parsed as what follows");
            vassert!(rd.pos == end_at + 1, "lzma2: nothing beyond the end control byte is consumed, whatever the declared compressed size");
        }
    }
    if ok {
        vassert!(props_ok, "lzma2: Ok implies legal properties (props < 225, lc+lp <= 4)");
        vassert!(unpacked == NS, "lzma2: Ok implies the chunk produced exactly its declared uncompressed size");
        vassert!(sink.len == NS, "lzma2: output length");
        let mut k = 0;
        while k < NS {
            let a = body[5 + k * L];
            let b = body[5 + k * L + L - 1];
            vassert!(sink.buf[k] == a ^ b, "lzma2: output bytes are the decoded symbols in order");
            k += 1;
        }
        vassert!(sink.flushes >= 1 && sink.flushed_len == NS, "lzma2: sink flushed after the last byte");
        if PD == 0 {
            vassert!(rd.pos == end_at + 1, "lzma2: reader left just after the end control byte");
        }
        let resets = crate::decode::lzma::verif_h::reset_count(&dec.lzma_state);
        vassert!(resets == if CLASS >= 1 { 1 } else { 0 }, "lzma2: decoder state reset iff the control byte asks for it");
        if has_props {
            vassert!(dec.lzma_state.lzma_props.lc == lc && dec.lzma_state.lzma_props.lp == lp && dec.lzma_state.lzma_props.pb == pb, "lzma2: new properties decoded from the property byte");
        } else {
            vassert!(dec.lzma_state.lzma_props.lc == 0 && dec.lzma_state.lzma_props.lp == 0 && dec.lzma_state.lzma_props.pb == 0, "lzma2: properties kept when not re-specified");
        }
        let exp_writes = if CLASS == 3 { 2 } else { 1 };
        vassert!(sink.writes == exp_writes, "lzma2: dictionary reset (flush) iff control class 3");
    }
    vcover!(ok, "chunk_ok");
    vcover!(!ok, "chunk_err");
    vcover!(true, "end_reached");
    forget(dec);
}

/// Uncompressed chunks only: [ctrl CT (1|2), be16 K-1, K bytes] x NCH, then end + trailing.
/// SHORT > 0 truncates the input by SHORT bytes (chunk shorter than declared / missing end).
fn uncompressed_chunks<const NCH: usize, const K: usize, const CT1: u8, const CT2: u8, const SHORT: usize>() {
    let mut t = Tape::<32>::new();
    let body: [u8; 16] = t.bytes::<16>();
    let mut f = [0u8; 32];
    let mut n = 0usize;
    let cts = [CT1, CT2];
    let mut c = 0;
    while c < NCH {
        f[n] = cts[c];
        f[n + 1] = ((K - 1) >> 8) as u8;
        f[n + 2] = (K - 1) as u8;
        n += 3;
        let mut i = 0;
        while i < K {
            f[n] = body[c * K + i];
            n += 1;
            i += 1;
        }
        c += 1;
    }
    f[n] = 0;
    let end_at = n;
    n += 1;
    f[n] = 0xEE;
    n += 1;
    let avail = if SHORT > 0 { end_at + 1 - SHORT } else { n };
    let mut dec = mk_decoder([script(1, K_LIT); 4]);
    let mut rd = ArrReader::<32>::new(f, avail);
    let mut sink = RecSink::<16>::new();
    let r = dec.decompress(&mut rd, &mut sink);
    let ok = r.is_ok();
    forget(r);
    if SHORT > 0 {
        vassert!(!ok, "lzma2: input ending before the end control byte / inside an uncompressed chunk is rejected");
    } else {
        vassert!(ok, "lzma2: well-formed uncompressed chunks decode");
        vassert!(sink.len == NCH * K, "lzma2: uncompressed chunks are copied in full");
        let mut k = 0;
        while k < NCH * K {
            vassert!(sink.buf[k] == body[k], "lzma2: uncompressed bytes verbatim, in order");
            k += 1;
        }
        vassert!(rd.pos == end_at + 1, "lzma2: reader left just after the end control byte");
        // control 1 resets the dictionary (flushes what was accumulated), control 2 does not
        let mut resets = 0;
        let mut c2 = 0;
        while c2 < NCH {
            if cts[c2] == 1 {
                resets += 1;
            }
            c2 += 1;
        }
        vassert!(sink.writes == resets + 1, "lzma2: dictionary reset exactly on control byte 1");
        vassert!(sink.flushes >= 1 && sink.flushed_len == NCH * K, "lzma2: sink flushed at the end");
    }
    vcover!(true, "end_reached");
    forget(dec);
}

//@ harness props=C02,C11,C17 tier=quick unwind=6 unwindset=decompress:4,default_read_exact:4,uncompressed_chunks:12 mem_gb=6 timeout=600 native=no
//@ bound: LZMA2: only the end byte (empty stream) + 1 trailing byte
#[cfg_attr(kani, kani::proof)]
#[cfg_attr(kani, kani::stub(std::fmt::format, crate::verif_common::stub_format))]
#[cfg_attr(kani, kani::stub(std::io::Error::is_interrupted, crate::verif_common::stub_not_interrupted))]
#[cfg_attr(kani, kani::stub(crate::decode::lzbuffer::LzAccumBuffer::from_stream, crate::decode::lzbuffer::verif_h::accum_from_stream_with_capacity))]
pub fn lzma2_end_only() {
    uncompressed_chunks::<0, 1, 1, 1, 0>()
}

//@ harness props=C02,C09,C11,C17 tier=quick unwind=6 unwindset=decompress:4,default_read_exact:4,uncompressed_chunks:12 mem_gb=6 timeout=600 native=no
//@ bound: LZMA2: two uncompressed chunks (control 1 then 2) of 3 symbolic bytes each, end byte, trailing byte
#[cfg_attr(kani, kani::proof)]
#[cfg_attr(kani, kani::stub(std::fmt::format, crate::verif_common::stub_format))]
#[cfg_attr(kani, kani::stub(std::io::Error::is_interrupted, crate::verif_common::stub_not_interrupted))]
#[cfg_attr(kani, kani::stub(crate::decode::lzbuffer::LzAccumBuffer::from_stream, crate::decode::lzbuffer::verif_h::accum_from_stream_with_capacity))]
pub fn lzma2_uncompressed_1_2() {
    uncompressed_chunks::<2, 3, 1, 2, 0>()
}


//@ harness props=C02,C17,C11,C07 tier=quick unwind=6 unwindset=process_mode:5,decompress:4,default_read_exact:4,one_lzma_chunk:30 mem_gb=6 timeout=600 native=no opt_covers=chunk_err
//@ bound: LZMA2 stream: one LZMA chunk class 0 (props byte 0x5d), 2 abstract symbol(s) of 2 bytes, compressed-size field off by 0, uncompressed-size field off by 0; payload symbolic; end byte + 1 trailing byte
#[cfg_attr(kani, kani::proof)]
#[cfg_attr(kani, kani::stub(std::fmt::format, crate::verif_common::stub_format))]
#[cfg_attr(kani, kani::stub(std::io::Error::is_interrupted, crate::verif_common::stub_not_interrupted))]
#[cfg_attr(kani, kani::stub(crate::decode::lzma::DecoderState::process_next_inner, crate::decode::lzma::verif_h::abs_symbol))]
#[cfg_attr(kani, kani::stub(crate::decode::lzma::DecoderState::reset_state, crate::decode::lzma2::verif_h::observing_reset_state))]
#[cfg_attr(kani, kani::stub(crate::decode::lzbuffer::LzAccumBuffer::from_stream, crate::decode::lzbuffer::verif_h::accum_from_stream_with_capacity))]
pub fn lzma2_c0_n2_l2_pd0_ud0_p5d() {
    one_lzma_chunk::<0, 2, 2, 0, 0, 93>()
}

//@ harness props=C02,C17,C11,C07 tier=quick unwind=6 unwindset=process_mode:5,decompress:4,default_read_exact:4,one_lzma_chunk:30 mem_gb=6 timeout=600 native=no opt_covers=chunk_err
//@ bound: LZMA2 stream: one LZMA chunk class 1 (props byte 0x5d), 2 abstract symbol(s) of 2 bytes, compressed-size field off by 0, uncompressed-size field off by 0; payload symbolic; end byte + 1 trailing byte
#[cfg_attr(kani, kani::proof)]
#[cfg_attr(kani, kani::stub(std::fmt::format, crate::verif_common::stub_format))]
#[cfg_attr(kani, kani::stub(std::io::Error::is_interrupted, crate::verif_common::stub_not_interrupted))]
#[cfg_attr(kani, kani::stub(crate::decode::lzma::DecoderState::process_next_inner, crate::decode::lzma::verif_h::abs_symbol))]
#[cfg_attr(kani, kani::stub(crate::decode::lzma::DecoderState::reset_state, crate::decode::lzma2::verif_h::observing_reset_state))]
#[cfg_attr(kani, kani::stub(crate::decode::lzbuffer::LzAccumBuffer::from_stream, crate::decode::lzbuffer::verif_h::accum_from_stream_with_capacity))]
pub fn lzma2_c1_n2_l2_pd0_ud0_p5d() {
    one_lzma_chunk::<1, 2, 2, 0, 0, 93>()
}

//@ harness props=C02,C17,C11,C07 tier=quick unwind=6 unwindset=process_mode:5,decompress:4,default_read_exact:4,one_lzma_chunk:30 mem_gb=6 timeout=600 native=no opt_covers=chunk_err
//@ bound: LZMA2 stream: one LZMA chunk class 2 (props byte 0x5d), 2 abstract symbol(s) of 2 bytes, compressed-size field off by 0, uncompressed-size field off by 0; payload symbolic; end byte + 1 trailing byte
#[cfg_attr(kani, kani::proof)]
#[cfg_attr(kani, kani::stub(std::fmt::format, crate::verif_common::stub_format))]
#[cfg_attr(kani, kani::stub(std::io::Error::is_interrupted, crate::verif_common::stub_not_interrupted))]
#[cfg_attr(kani, kani::stub(crate::decode::lzma::DecoderState::process_next_inner, crate::decode::lzma::verif_h::abs_symbol))]
#[cfg_attr(kani, kani::stub(crate::decode::lzma::DecoderState::reset_state, crate::decode::lzma2::verif_h::observing_reset_state))]
#[cfg_attr(kani, kani::stub(crate::decode::lzbuffer::LzAccumBuffer::from_stream, crate::decode::lzbuffer::verif_h::accum_from_stream_with_capacity))]
pub fn lzma2_c2_n2_l2_pd0_ud0_p5d() {
    one_lzma_chunk::<2, 2, 2, 0, 0, 93>()
}

//@ harness props=C02,C17,C11,C07 tier=quick unwind=6 unwindset=process_mode:5,decompress:4,default_read_exact:4,one_lzma_chunk:30 mem_gb=6 timeout=600 native=no opt_covers=chunk_err
//@ bound: LZMA2 stream: one LZMA chunk class 3 (props byte 0x5d), 2 abstract symbol(s) of 2 bytes, compressed-size field off by 0, uncompressed-size field off by 0; payload symbolic; end byte + 1 trailing byte
#[cfg_attr(kani, kani::proof)]
#[cfg_attr(kani, kani::stub(std::fmt::format, crate::verif_common::stub_format))]
#[cfg_attr(kani, kani::stub(std::io::Error::is_interrupted, crate::verif_common::stub_not_interrupted))]
#[cfg_attr(kani, kani::stub(crate::decode::lzma::DecoderState::process_next_inner, crate::decode::lzma::verif_h::abs_symbol))]
#[cfg_attr(kani, kani::stub(crate::decode::lzma::DecoderState::reset_state, crate::decode::lzma2::verif_h::observing_reset_state))]
#[cfg_attr(kani, kani::stub(crate::decode::lzbuffer::LzAccumBuffer::from_stream, crate::decode::lzbuffer::verif_h::accum_from_stream_with_capacity))]
pub fn lzma2_c3_n2_l2_pd0_ud0_p5d() {
    one_lzma_chunk::<3, 2, 2, 0, 0, 93>()
}

//@ harness props=C02,C17,C11,C07 tier=quick unwind=6 unwindset=process_mode:5,decompress:4,default_read_exact:4,one_lzma_chunk:30 mem_gb=6 timeout=600 native=no opt_covers=chunk_ok
//@ bound: LZMA2 stream: one LZMA chunk class 3 (props byte 0x5d), 2 abstract symbol(s) of 3 bytes, compressed-size field off by 0, uncompressed-size field off by 1; payload symbolic; end byte + 1 trailing byte
#[cfg_attr(kani, kani::proof)]
#[cfg_attr(kani, kani::stub(std::fmt::format, crate::verif_common::stub_format))]
#[cfg_attr(kani, kani::stub(std::io::Error::is_interrupted, crate::verif_common::stub_not_interrupted))]
#[cfg_attr(kani, kani::stub(crate::decode::lzma::DecoderState::process_next_inner, crate::decode::lzma::verif_h::abs_symbol))]
#[cfg_attr(kani, kani::stub(crate::decode::lzma::DecoderState::reset_state, crate::decode::lzma2::verif_h::observing_reset_state))]
#[cfg_attr(kani, kani::stub(crate::decode::lzbuffer::LzAccumBuffer::from_stream, crate::decode::lzbuffer::verif_h::accum_from_stream_with_capacity))]
pub fn lzma2_c3_n2_l3_pd0_ud1_p5d() {
    one_lzma_chunk::<3, 2, 3, 0, 1, 93>()
}

//@ harness props=C02,C17,C11,C07 tier=thorough optional=yes unwind=6 unwindset=process_mode:5,decompress:4,default_read_exact:4,one_lzma_chunk:30 mem_gb=6 timeout=600 native=no opt_covers=chunk_ok
//@ bound: LZMA2 stream: one LZMA chunk class 3 (props byte 0x5d), 2 abstract symbol(s) of 3 bytes, compressed-size field off by 0, uncompressed-size field off by -1; payload symbolic; end byte + 1 trailing byte
#[cfg_attr(kani, kani::proof)]
#[cfg_attr(kani, kani::stub(std::fmt::format, crate::verif_common::stub_format))]
#[cfg_attr(kani, kani::stub(std::io::Error::is_interrupted, crate::verif_common::stub_not_interrupted))]
#[cfg_attr(kani, kani::stub(crate::decode::lzma::DecoderState::process_next_inner, crate::decode::lzma::verif_h::abs_symbol))]
#[cfg_attr(kani, kani::stub(crate::decode::lzma::DecoderState::reset_state, crate::decode::lzma2::verif_h::observing_reset_state))]
#[cfg_attr(kani, kani::stub(crate::decode::lzbuffer::LzAccumBuffer::from_stream, crate::decode::lzbuffer::verif_h::accum_from_stream_with_capacity))]
pub fn lzma2_c3_n2_l3_pd0_udm1_p5d() {
    one_lzma_chunk::<3, 2, 3, 0, -1, 93>()
}

//@ harness props=C02,C17,C11,C07 tier=thorough optional=yes unwind=6 unwindset=process_mode:5,decompress:4,default_read_exact:4,one_lzma_chunk:30 mem_gb=6 timeout=600 native=no opt_covers=chunk_ok
//@ bound: LZMA2 stream: one LZMA chunk class 1 (props byte 0x5d), 1 abstract symbol(s) of 19 bytes, compressed-size field off by -1, uncompressed-size field off by 0; payload symbolic; end byte + 1 trailing byte
#[cfg_attr(kani, kani::proof)]
#[cfg_attr(kani, kani::stub(std::fmt::format, crate::verif_common::stub_format))]
#[cfg_attr(kani, kani::stub(std::io::Error::is_interrupted, crate::verif_common::stub_not_interrupted))]
#[cfg_attr(kani, kani::stub(crate::decode::lzma::DecoderState::process_next_inner, crate::decode::lzma::verif_h::abs_symbol))]
#[cfg_attr(kani, kani::stub(crate::decode::lzma::DecoderState::reset_state, crate::decode::lzma2::verif_h::observing_reset_state))]
#[cfg_attr(kani, kani::stub(crate::decode::lzbuffer::LzAccumBuffer::from_stream, crate::decode::lzbuffer::verif_h::accum_from_stream_with_capacity))]
pub fn lzma2_c1_n1_l19_pdm1_ud0_p5d() {
    one_lzma_chunk::<1, 1, 19, -1, 0, 93>()
}

//@ harness props=C02,C17,C11,C07 tier=thorough optional=yes unwind=6 unwindset=process_mode:5,decompress:4,default_read_exact:4,one_lzma_chunk:30 mem_gb=6 timeout=600 native=no opt_covers=chunk_ok
//@ bound: LZMA2 stream: one LZMA chunk class 2 (props byte 0x5d), 1 abstract symbol(s) of 2 bytes, compressed-size field off by -6, uncompressed-size field off by 0; payload symbolic; end byte + 1 trailing byte
#[cfg_attr(kani, kani::proof)]
#[cfg_attr(kani, kani::stub(std::fmt::format, crate::verif_common::stub_format))]
#[cfg_attr(kani, kani::stub(std::io::Error::is_interrupted, crate::verif_common::stub_not_interrupted))]
#[cfg_attr(kani, kani::stub(crate::decode::lzma::DecoderState::process_next_inner, crate::decode::lzma::verif_h::abs_symbol))]
#[cfg_attr(kani, kani::stub(crate::decode::lzma::DecoderState::reset_state, crate::decode::lzma2::verif_h::observing_reset_state))]
#[cfg_attr(kani, kani::stub(crate::decode::lzbuffer::LzAccumBuffer::from_stream, crate::decode::lzbuffer::verif_h::accum_from_stream_with_capacity))]
pub fn lzma2_c2_n1_l2_pdm6_ud0_p5d() {
    one_lzma_chunk::<2, 1, 2, -6, 0, 93>()
}

//@ harness props=C02,C17,C11,C07 tier=quick unwind=6 unwindset=process_mode:5,decompress:4,default_read_exact:4,one_lzma_chunk:30 mem_gb=6 timeout=600 native=no opt_covers=chunk_ok
//@ bound: LZMA2 stream: one LZMA chunk class 2 (props byte 0xe0), 1 abstract symbol(s) of 1 bytes, compressed-size field off by 0, uncompressed-size field off by 0; payload symbolic; end byte + 1 trailing byte
#[cfg_attr(kani, kani::proof)]
#[cfg_attr(kani, kani::stub(std::fmt::format, crate::verif_common::stub_format))]
#[cfg_attr(kani, kani::stub(std::io::Error::is_interrupted, crate::verif_common::stub_not_interrupted))]
#[cfg_attr(kani, kani::stub(crate::decode::lzma::DecoderState::process_next_inner, crate::decode::lzma::verif_h::abs_symbol))]
#[cfg_attr(kani, kani::stub(crate::decode::lzma::DecoderState::reset_state, crate::decode::lzma2::verif_h::observing_reset_state))]
#[cfg_attr(kani, kani::stub(crate::decode::lzbuffer::LzAccumBuffer::from_stream, crate::decode::lzbuffer::verif_h::accum_from_stream_with_capacity))]
pub fn lzma2_c2_n1_l1_pd0_ud0_pe0() {
    one_lzma_chunk::<2, 1, 1, 0, 0, 224>()
}

//@ harness props=C02,C17,C11,C07 tier=quick unwind=6 unwindset=process_mode:5,decompress:4,default_read_exact:4,one_lzma_chunk:30 mem_gb=6 timeout=600 native=no opt_covers=chunk_ok
//@ bound: LZMA2 stream: one LZMA chunk class 2 (props byte 0xe1), 1 abstract symbol(s) of 1 bytes, compressed-size field off by 0, uncompressed-size field off by 0; payload symbolic; end byte + 1 trailing byte
#[cfg_attr(kani, kani::proof)]
#[cfg_attr(kani, kani::stub(std::fmt::format, crate::verif_common::stub_format))]
#[cfg_attr(kani, kani::stub(std::io::Error::is_interrupted, crate::verif_common::stub_not_interrupted))]
#[cfg_attr(kani, kani::stub(crate::decode::lzma::DecoderState::process_next_inner, crate::decode::lzma::verif_h::abs_symbol))]
#[cfg_attr(kani, kani::stub(crate::decode::lzma::DecoderState::reset_state, crate::decode::lzma2::verif_h::observing_reset_state))]
#[cfg_attr(kani, kani::stub(crate::decode::lzbuffer::LzAccumBuffer::from_stream, crate::decode::lzbuffer::verif_h::accum_from_stream_with_capacity))]
pub fn lzma2_c2_n1_l1_pd0_ud0_pe1() {
    one_lzma_chunk::<2, 1, 1, 0, 0, 225>()
}

//@ harness props=C02,C17,C11,C07 tier=quick unwind=6 unwindset=process_mode:5,decompress:4,default_read_exact:4,one_lzma_chunk:30 mem_gb=6 timeout=600 native=no opt_covers=chunk_ok
//@ bound: LZMA2 stream: one LZMA chunk class 3 (props byte 0x2c), 1 abstract symbol(s) of 1 bytes, compressed-size field off by 0, uncompressed-size field off by 0; payload symbolic; end byte + 1 trailing byte
#[cfg_attr(kani, kani::proof)]
#[cfg_attr(kani, kani::stub(std::fmt::format, crate::verif_common::stub_format))]
#[cfg_attr(kani, kani::stub(std::io::Error::is_interrupted, crate::verif_common::stub_not_interrupted))]
#[cfg_attr(kani, kani::stub(crate::decode::lzma::DecoderState::process_next_inner, crate::decode::lzma::verif_h::abs_symbol))]
#[cfg_attr(kani, kani::stub(crate::decode::lzma::DecoderState::reset_state, crate::decode::lzma2::verif_h::observing_reset_state))]
#[cfg_attr(kani, kani::stub(crate::decode::lzbuffer::LzAccumBuffer::from_stream, crate::decode::lzbuffer::verif_h::accum_from_stream_with_capacity))]
pub fn lzma2_c3_n1_l1_pd0_ud0_p2c() {
    one_lzma_chunk::<3, 1, 1, 0, 0, 44>()
}

//@ harness props=C02,C17,C11,C07 tier=quick unwind=6 unwindset=process_mode:5,decompress:4,default_read_exact:4,one_lzma_chunk:30 mem_gb=6 timeout=600 native=no opt_covers=chunk_ok
//@ bound: LZMA2 stream: one LZMA chunk class 3 (props byte 0x28), 1 abstract symbol(s) of 1 bytes, compressed-size field off by 0, uncompressed-size field off by 0; payload symbolic; end byte + 1 trailing byte
#[cfg_attr(kani, kani::proof)]
#[cfg_attr(kani, kani::stub(std::fmt::format, crate::verif_common::stub_format))]
#[cfg_attr(kani, kani::stub(std::io::Error::is_interrupted, crate::verif_common::stub_not_interrupted))]
#[cfg_attr(kani, kani::stub(crate::decode::lzma::DecoderState::process_next_inner, crate::decode::lzma::verif_h::abs_symbol))]
#[cfg_attr(kani, kani::stub(crate::decode::lzma::DecoderState::reset_state, crate::decode::lzma2::verif_h::observing_reset_state))]
#[cfg_attr(kani, kani::stub(crate::decode::lzbuffer::LzAccumBuffer::from_stream, crate::decode::lzbuffer::verif_h::accum_from_stream_with_capacity))]
pub fn lzma2_c3_n1_l1_pd0_ud0_p28() {
    one_lzma_chunk::<3, 1, 1, 0, 0, 40>()
}

//@ harness props=C02,C17,C11,C07 tier=quick unwind=6 unwindset=process_mode:5,decompress:4,default_read_exact:4,one_lzma_chunk:30 mem_gb=6 timeout=600 native=no opt_covers=chunk_ok
//@ bound: LZMA2 stream: one LZMA chunk class 3 (props byte 0xff), 1 abstract symbol(s) of 1 bytes, compressed-size field off by 0, uncompressed-size field off by 0; payload symbolic; end byte + 1 trailing byte
#[cfg_attr(kani, kani::proof)]
#[cfg_attr(kani, kani::stub(std::fmt::format, crate::verif_common::stub_format))]
#[cfg_attr(kani, kani::stub(std::io::Error::is_interrupted, crate::verif_common::stub_not_interrupted))]
#[cfg_attr(kani, kani::stub(crate::decode::lzma::DecoderState::process_next_inner, crate::decode::lzma::verif_h::abs_symbol))]
#[cfg_attr(kani, kani::stub(crate::decode::lzma::DecoderState::reset_state, crate::decode::lzma2::verif_h::observing_reset_state))]
#[cfg_attr(kani, kani::stub(crate::decode::lzbuffer::LzAccumBuffer::from_stream, crate::decode::lzbuffer::verif_h::accum_from_stream_with_capacity))]
pub fn lzma2_c3_n1_l1_pd0_ud0_pff() {
    one_lzma_chunk::<3, 1, 1, 0, 0, 255>()
}

//@ harness props=C02,C17,C11,C07,C13 tier=quick unwind=6 unwindset=process_mode:5,decompress:4,default_read_exact:4,one_lzma_chunk:30 mem_gb=6 timeout=600 native=no opt_covers=chunk_err,chunk_ok
//@ bound: LZMA2 stream: one LZMA chunk class 3 (props byte 0x5d), 2 abstract symbol(s) of 2 bytes, compressed-size field off by 1, uncompressed-size field off by 0; payload symbolic; end byte + 1 trailing byte
#[cfg_attr(kani, kani::proof)]
#[cfg_attr(kani, kani::stub(std::fmt::format, crate::verif_common::stub_format))]
#[cfg_attr(kani, kani::stub(std::io::Error::is_interrupted, crate::verif_common::stub_not_interrupted))]
#[cfg_attr(kani, kani::stub(crate::decode::lzma::DecoderState::process_next_inner, crate::decode::lzma::verif_h::abs_symbol))]
#[cfg_attr(kani, kani::stub(crate::decode::lzma::DecoderState::reset_state, crate::decode::lzma2::verif_h::observing_reset_state))]
#[cfg_attr(kani, kani::stub(crate::decode::lzbuffer::LzAccumBuffer::from_stream, crate::decode::lzbuffer::verif_h::accum_from_stream_with_capacity))]
pub fn lzma2_c3_n2_l2_pd1_ud0_p5d() {
    one_lzma_chunk::<3, 2, 2, 1, 0, 93>()
}


/// One LZMA chunk whose single symbol produces three bytes while DECL bytes are declared:
/// "produces more (or fewer) bytes than its declared uncompressed size" must be an error.
fn wide_chunk<const DECL: usize>() {
    let mut t = Tape::<32>::new();
    let body: [u8; 8] = t.bytes::<8>();
    let mut f = [0u8; 16];
    f[0] = 0x80 | (1 << 5);
    f[1] = 0;
    f[2] = (DECL - 1) as u8;
    f[3] = 0;
    f[4] = (5 + 2 - 1) as u8;
    let mut i = 0;
    while i < 7 {
        f[5 + i] = body[i];
        i += 1;
    }
    f[12] = 0;
    f[13] = 0xEE;
    let mut dec = mk_decoder([script(2, K_WIDE), script(20, K_LIT), script(20, K_LIT), script(20, K_LIT)]);
    let mut rd = ArrReader::<16>::new(f, 14);
    let mut sink = RecSink::<8>::new();
    let r = dec.decompress(&mut rd, &mut sink);
    let ok = r.is_ok();
    forget(r);
    vassert!(ok == (DECL == 3), "lzma2: a chunk producing more or fewer bytes than declared is rejected");
    if ok {
        vassert!(sink.len == 3 && rd.pos == 13, "lzma2: three-byte symbol chunk output and position");
    }
    vcover!(true, "end_reached");
    forget(dec);
}

//@ harness props=C02,C17 tier=quick unwind=6 unwindset=process_mode:5,decompress:4,default_read_exact:4,wide_chunk:9 mem_gb=6 timeout=600 native=no
//@ bound: LZMA2 stream: one LZMA chunk (class 1) whose only symbol yields 3 bytes, declared uncompressed size 1
#[cfg_attr(kani, kani::proof)]
#[cfg_attr(kani, kani::stub(std::fmt::format, crate::verif_common::stub_format))]
#[cfg_attr(kani, kani::stub(std::io::Error::is_interrupted, crate::verif_common::stub_not_interrupted))]
#[cfg_attr(kani, kani::stub(crate::decode::lzma::DecoderState::process_next_inner, crate::decode::lzma::verif_h::abs_symbol))]
#[cfg_attr(kani, kani::stub(crate::decode::lzma::DecoderState::reset_state, crate::decode::lzma2::verif_h::observing_reset_state))]
#[cfg_attr(kani, kani::stub(crate::decode::lzbuffer::LzAccumBuffer::from_stream, crate::decode::lzbuffer::verif_h::accum_from_stream_with_capacity))]
pub fn lzma2_wide_decl1() {
    wide_chunk::<1>()
}

//@ harness props=C02,C17 tier=quick unwind=6 unwindset=process_mode:5,decompress:4,default_read_exact:4,wide_chunk:9 mem_gb=6 timeout=600 native=no
//@ bound: LZMA2 stream: one LZMA chunk (class 1) whose only symbol yields 3 bytes, declared uncompressed size 2
#[cfg_attr(kani, kani::proof)]
#[cfg_attr(kani, kani::stub(std::fmt::format, crate::verif_common::stub_format))]
#[cfg_attr(kani, kani::stub(std::io::Error::is_interrupted, crate::verif_common::stub_not_interrupted))]
#[cfg_attr(kani, kani::stub(crate::decode::lzma::DecoderState::process_next_inner, crate::decode::lzma::verif_h::abs_symbol))]
#[cfg_attr(kani, kani::stub(crate::decode::lzma::DecoderState::reset_state, crate::decode::lzma2::verif_h::observing_reset_state))]
#[cfg_attr(kani, kani::stub(crate::decode::lzbuffer::LzAccumBuffer::from_stream, crate::decode::lzbuffer::verif_h::accum_from_stream_with_capacity))]
pub fn lzma2_wide_decl2() {
    wide_chunk::<2>()
}

//@ harness props=C02,C17 tier=quick unwind=6 unwindset=process_mode:5,decompress:4,default_read_exact:4,wide_chunk:9 mem_gb=6 timeout=600 native=no
//@ bound: LZMA2 stream: one LZMA chunk (class 1) whose only symbol yields 3 bytes, declared uncompressed size 3
#[cfg_attr(kani, kani::proof)]
#[cfg_attr(kani, kani::stub(std::fmt::format, crate::verif_common::stub_format))]
#[cfg_attr(kani, kani::stub(std::io::Error::is_interrupted, crate::verif_common::stub_not_interrupted))]
#[cfg_attr(kani, kani::stub(crate::decode::lzma::DecoderState::process_next_inner, crate::decode::lzma::verif_h::abs_symbol))]
#[cfg_attr(kani, kani::stub(crate::decode::lzma::DecoderState::reset_state, crate::decode::lzma2::verif_h::observing_reset_state))]
#[cfg_attr(kani, kani::stub(crate::decode::lzbuffer::LzAccumBuffer::from_stream, crate::decode::lzbuffer::verif_h::accum_from_stream_with_capacity))]
pub fn lzma2_wide_decl3() {
    wide_chunk::<3>()
}

//@ harness props=C02,C17 tier=quick unwind=6 unwindset=process_mode:5,decompress:4,default_read_exact:4,wide_chunk:9 mem_gb=6 timeout=600 native=no
//@ bound: LZMA2 stream: one LZMA chunk (class 1) whose only symbol yields 3 bytes, declared uncompressed size 4
#[cfg_attr(kani, kani::proof)]
#[cfg_attr(kani, kani::stub(std::fmt::format, crate::verif_common::stub_format))]
#[cfg_attr(kani, kani::stub(std::io::Error::is_interrupted, crate::verif_common::stub_not_interrupted))]
#[cfg_attr(kani, kani::stub(crate::decode::lzma::DecoderState::process_next_inner, crate::decode::lzma::verif_h::abs_symbol))]
#[cfg_attr(kani, kani::stub(crate::decode::lzma::DecoderState::reset_state, crate::decode::lzma2::verif_h::observing_reset_state))]
#[cfg_attr(kani, kani::stub(crate::decode::lzbuffer::LzAccumBuffer::from_stream, crate::decode::lzbuffer::verif_h::accum_from_stream_with_capacity))]
pub fn lzma2_wide_decl4() {
    wide_chunk::<4>()
}

/// parse_lzma called directly with a fully symbolic status byte below 0x80 (decompress
/// dispatches 0 -> end, 1/2 -> uncompressed, everything else -> parse_lzma): 0x03..=0x7F is Err
/// before anything is read.
//@ harness props=C17,C02 tier=quick unwind=6 unwindset=default_read_exact:4 mem_gb=4 timeout=600 native=no
//@ bound: parse_lzma with every status byte < 0x80 on a 12-byte symbolic input
#[cfg_attr(kani, kani::proof)]
#[cfg_attr(kani, kani::stub(std::fmt::format, crate::verif_common::stub_format))]
#[cfg_attr(kani, kani::stub(std::io::Error::is_interrupted, crate::verif_common::stub_not_interrupted))]
#[cfg_attr(kani, kani::stub(crate::decode::lzma::DecoderState::process_next_inner, crate::decode::lzma::verif_h::abs_symbol))]
#[cfg_attr(kani, kani::stub(crate::decode::lzma::DecoderState::reset_state, crate::decode::lzma2::verif_h::observing_reset_state))]
pub fn lzma2_parse_lzma_invalid_status() {
    let mut t = Tape::<32>::new();
    let status = t.u8();
    let f: [u8; 12] = t.bytes::<12>();
    assume(status < 0x80);
    let mut dec = mk_decoder([script(1, K_LIT); 4]);
    let mut rd = ArrReader::<12>::new(f, 12);
    let mut sink = RecSink::<4>::new();
    let mut accum = crate::decode::lzbuffer::verif_h::accum_from_stream_with_capacity(&mut sink, usize::MAX);
    let r = dec.parse_lzma(&mut accum, &mut rd, status);
    vassert!(r.is_err(), "lzma2: control bytes 0x03..=0x7F are rejected");
    vassert!(rd.pos == 0, "lzma2: an invalid control byte is rejected before reading further");
    vcover!(status == 0x7F, "status_7f");
    forget(r);
    forget(accum);
    forget(dec);
}

/// parse_lzma called directly, class CLASS, one abstract one-byte symbol: the 5+16-bit
/// uncompressed-size field, the property byte and the initial window length are symbolic.
fn parse_lzma_fields<const CLASS: usize>() {
    let mut t = Tape::<32>::new();
    let hi5 = t.u8() & 0x1F;
    let ulo = t.u16();
    let props = t.u8();
    let body: [u8; 6] = t.bytes::<6>();
    let status = 0x80 | ((CLASS as u8) << 5) | hi5;
    let has_props = CLASS >= 2;
    let mut f = [0u8; 16];
    f[0] = (ulo >> 8) as u8;
    f[1] = ulo as u8;
    f[2] = 0;
    f[3] = 5; // packed = 6: preamble + one 1-byte symbol
    let mut n = 4;
    if has_props {
        f[n] = props;
        n += 1;
    }
    let mut i = 0;
    while i < 6 {
        f[n + i] = body[i];
        i += 1;
    }
    let total = n + 6;
    let mut dec = mk_decoder([script(1, K_LIT), script(20, K_LIT), script(20, K_LIT), script(20, K_LIT)]);
    let mut rd = ArrReader::<16>::new(f, total);
    let mut sink = RecSink::<4>::new();
    let mut accum = crate::decode::lzbuffer::verif_h::accum_from_stream_with_capacity(&mut sink, usize::MAX);
    let r = dec.parse_lzma(&mut accum, &mut rd, status);
    let ok = r.is_ok();
    forget(r);
    let unpacked = (((hi5 as u64) << 16) | (ulo as u64)) + 1;
    let lc = (props as u32) % 9;
    let lp = ((props as u32) / 9) % 5;
    let props_ok = !has_props || ((props as u32) < 225 && lc + lp <= 4);
    vassert!(ok == (props_ok && unpacked == 1), "lzma2: chunk accepted iff properties legal and declared size ((ctl & 0x1F) << 16 | be16) + 1 equals what it produces");
    if ok {
        vassert!(crate::decode::lzma::verif_h::unpacked_size_of(&dec.lzma_state) == Some(1), "lzma2: per-chunk target = window length + declared size");
        vassert!(rd.pos == total, "lzma2: chunk consumed exactly its header and payload");
    }
    vcover!(ok, "fields_ok");
    vcover!(!ok && props_ok, "size_mismatch");
    vcover!(true, "end_reached");
    forget(accum);
    forget(dec);
}

//@ harness props=C02,C17,C11 tier=quick unwind=8 unwindset=process_mode:4,default_read_exact:4 mem_gb=10 timeout=900 native=no
//@ bound: parse_lzma directly, class 0 (no reset), symbolic 21-bit uncompressed-size field, one abstract symbol
#[cfg_attr(kani, kani::proof)]
#[cfg_attr(kani, kani::stub(std::fmt::format, crate::verif_common::stub_format))]
#[cfg_attr(kani, kani::stub(std::io::Error::is_interrupted, crate::verif_common::stub_not_interrupted))]
#[cfg_attr(kani, kani::stub(crate::decode::lzma::DecoderState::process_next_inner, crate::decode::lzma::verif_h::abs_symbol))]
#[cfg_attr(kani, kani::stub(crate::decode::lzma::DecoderState::reset_state, crate::decode::lzma2::verif_h::observing_reset_state))]
pub fn lzma2_parse_lzma_fields_c0() {
    parse_lzma_fields::<0>()
}

//@ harness props=C02,C17 tier=quick unwind=8 unwindset=process_mode:4,default_read_exact:4 mem_gb=10 timeout=900 native=no
//@ bound: parse_lzma directly, class 2 (state reset + new props), symbolic property byte and 21-bit size field, one abstract symbol
#[cfg_attr(kani, kani::proof)]
#[cfg_attr(kani, kani::stub(std::fmt::format, crate::verif_common::stub_format))]
#[cfg_attr(kani, kani::stub(std::io::Error::is_interrupted, crate::verif_common::stub_not_interrupted))]
#[cfg_attr(kani, kani::stub(crate::decode::lzma::DecoderState::process_next_inner, crate::decode::lzma::verif_h::abs_symbol))]
#[cfg_attr(kani, kani::stub(crate::decode::lzma::DecoderState::reset_state, crate::decode::lzma2::verif_h::observing_reset_state))]
pub fn lzma2_parse_lzma_fields_c2() {
    parse_lzma_fields::<2>()
}


//@ harness props=C02,C17,C07,C11 tier=quick unwind=8 unwindset=process_mode:4,default_read_exact:4 mem_gb=10 timeout=900 native=no
//@ bound: parse_lzma directly, class 1, SYMBOLIC 16-bit compressed-size field (payload really needs 6 bytes: preamble + one 1-byte symbol), declared uncompressed size 1
#[cfg_attr(kani, kani::proof)]
#[cfg_attr(kani, kani::stub(std::fmt::format, crate::verif_common::stub_format))]
#[cfg_attr(kani, kani::stub(std::io::Error::is_interrupted, crate::verif_common::stub_not_interrupted))]
#[cfg_attr(kani, kani::stub(crate::decode::lzma::DecoderState::process_next_inner, crate::decode::lzma::verif_h::abs_symbol))]
#[cfg_attr(kani, kani::stub(crate::decode::lzma::DecoderState::reset_state, crate::decode::lzma2::verif_h::observing_reset_state))]
pub fn lzma2_parse_lzma_packed_field() {
    let mut t = Tape::<32>::new();
    let packed = t.u16();
    let body: [u8; 8] = t.bytes::<8>();
    let status = 0x80u8 | (1 << 5);
    let f = [0u8, 0, (packed >> 8) as u8, packed as u8, body[0], body[1], body[2], body[3], body[4], body[5], body[6], body[7]];
    let mut dec = mk_decoder([script(1, K_LIT), script(20, K_LIT), script(20, K_LIT), script(20, K_LIT)]);
    let mut rd = ArrReader::<12>::new(f, 12);
    let mut sink = RecSink::<4>::new();
    let mut accum = crate::decode::lzbuffer::verif_h::accum_from_stream_with_capacity(&mut sink, usize::MAX);
    let r = dec.parse_lzma(&mut accum, &mut rd, status);
    let ok = r.is_ok();
    forget(r);
    let declared = packed as u64 + 1;
    // the payload needs 6 bytes; a declared size below that cannot be decoded
    if declared < 6 {
        vassert!(!ok, "lzma2: a chunk whose payload needs more input than its declared compressed size (be16 + 1) is rejected");
    }
    if declared == 6 {
        vassert!(ok, "lzma2: exact compressed size accepted");
        vassert!(rd.pos == 4 + 6, "lzma2: chunk consumed exactly header + declared payload");
    }
    vcover!(packed == 0xFFFF, "packed_field_ffff");
    vcover!(ok, "packed_ok");
    forget(accum);
    forget(dec);
}

//@ harness props=C14 tier=quick unwind=8 mem_gb=4 timeout=600 native=no
//@ bound: Lzma2Decoder::reset on a decoder whose properties were changed by a previous stream: reset_state(lc=0,lp=0,pb=0) is called once
#[cfg_attr(kani, kani::proof)]
#[cfg_attr(kani, kani::stub(std::fmt::format, crate::verif_common::stub_format))]
#[cfg_attr(kani, kani::stub(std::io::Error::is_interrupted, crate::verif_common::stub_not_interrupted))]
#[cfg_attr(kani, kani::stub(crate::decode::lzma::DecoderState::reset_state, crate::decode::lzma2::verif_h::observing_reset_state))]
pub fn raw_lzma2_decoder_reset() {
    let mut t = Tape::<16>::new();
    let mut dec = mk_decoder([script(1, K_LIT); 4]);
    dec.lzma_state.lzma_props = LzmaProperties { lc: (t.u8() % 5) as u32, lp: 0, pb: (t.u8() % 5) as u32 };
    dec.reset();
    vassert!(crate::decode::lzma::verif_h::reset_count(&dec.lzma_state) == 1, "raw LZMA2 decoder: reset resets the decoder state");
    vassert!(dec.lzma_state.lzma_props.lc == 0 && dec.lzma_state.lzma_props.lp == 0 && dec.lzma_state.lzma_props.pb == 0, "raw LZMA2 decoder: reset returns to lc=0 lp=0 pb=0 like a new decoder");
    vcover!(true, "end_reached");
    forget(dec);
}

/// Two chunks: an uncompressed chunk (control CT, K bytes) followed by an LZMA chunk of CLASS
/// with one abstract literal of L bytes, declared uncompressed size 1 + UD, then end + trailing.
/// Pins `set_unpacked_size(unpacked + accum.len())` (the window keeps the first chunk unless
/// CLASS == 3 resets the dictionary) and the order of the output.
fn two_chunks<const CT: u8, const K: usize, const CLASS: usize, const L: usize, const UD: isize>() {
    let mut t = Tape::<32>::new();
    let raw: [u8; 4] = t.bytes::<4>();
    let body: [u8; 12] = t.bytes::<12>();
    let mut f = [0u8; 40];
    let mut n = 0usize;
    f[n] = CT;
    f[n + 1] = 0;
    f[n + 2] = (K - 1) as u8;
    n += 3;
    let mut i = 0;
    while i < K {
        f[n] = raw[i];
        n += 1;
        i += 1;
    }
    f[n] = 0x80 | ((CLASS as u8) << 5);
    f[n + 1] = 0;
    f[n + 2] = (UD) as u8; // declared uncompressed size - 1
    f[n + 3] = 0;
    f[n + 4] = (5 + L - 1) as u8;
    n += 5;
    if CLASS >= 2 {
        f[n] = 0x5D;
        n += 1;
    }
    let mut j = 0;
    while j < 5 + L {
        f[n] = body[j];
        n += 1;
        j += 1;
    }
    f[n] = 0;
    let end_at = n;
    f[n + 1] = 0xEE;
    n += 2;
    let mut dec = mk_decoder([script(L, K_LIT), script(20, K_LIT), script(20, K_LIT), script(20, K_LIT)]);
    let mut rd = ArrReader::<40>::new(f, n);
    let mut sink = RecSink::<8>::new();
    let r = dec.decompress(&mut rd, &mut sink);
    let ok = r.is_ok();
    forget(r);
    vassert!(ok == (UD == 0), "lzma2: a compressed chunk after other chunks is accepted iff it produces exactly its own declared size (target = bytes already in the window + declared size)");
    if ok {
        vassert!(sink.len == K + 1, "lzma2: output is the concatenation of the chunks");
        let mut q = 0;
        while q < K {
            vassert!(sink.buf[q] == raw[q], "lzma2: uncompressed chunk first, verbatim");
            q += 1;
        }
        vassert!(sink.buf[K] == body[5] ^ body[5 + L - 1], "lzma2: then the compressed chunk's bytes");
        vassert!(rd.pos == end_at + 1, "lzma2: reader left just after the end control byte");
        let resets = (if CT == 1 { 1 } else { 0 }) + (if CLASS == 3 { 1 } else { 0 });
        vassert!(sink.writes == resets + 1, "lzma2: one flush per dictionary reset plus the final one");
        // uncompressed chunks (control 1 or 2) never touch the LZMA state
        vassert!(crate::decode::lzma::verif_h::reset_count(&dec.lzma_state) == if CLASS >= 1 { 1 } else { 0 }, "lzma2: the decoder state is reset exactly by the chunks that ask for it and carried otherwise");
    }
    vcover!(true, "end_reached");
    forget(dec);
}

//@ harness props=C02,C11,C17 tier=quick unwind=6 unwindset=process_mode:5,decompress:5,default_read_exact:4,two_chunks:20 mem_gb=6 timeout=600 native=no
//@ bound: LZMA2 stream: uncompressed chunk (control 1, 2 symbolic bytes) then LZMA chunk class 0 with one 2-byte abstract literal, declared size off by 0; end byte + trailing byte
#[cfg_attr(kani, kani::proof)]
#[cfg_attr(kani, kani::stub(std::fmt::format, crate::verif_common::stub_format))]
#[cfg_attr(kani, kani::stub(std::io::Error::is_interrupted, crate::verif_common::stub_not_interrupted))]
#[cfg_attr(kani, kani::stub(crate::decode::lzma::DecoderState::process_next_inner, crate::decode::lzma::verif_h::abs_symbol))]
#[cfg_attr(kani, kani::stub(crate::decode::lzma::DecoderState::reset_state, crate::decode::lzma2::verif_h::observing_reset_state))]
#[cfg_attr(kani, kani::stub(crate::decode::lzbuffer::LzAccumBuffer::from_stream, crate::decode::lzbuffer::verif_h::accum_from_stream_with_capacity))]
pub fn lzma2_two_chunks_ct1_k2_c0_l2_ud0() {
    two_chunks::<1, 2, 0, 2, 0>()
}

//@ harness props=C02,C11,C17 tier=quick unwind=6 unwindset=process_mode:5,decompress:5,default_read_exact:4,two_chunks:20 mem_gb=6 timeout=600 native=no
//@ bound: LZMA2 stream: uncompressed chunk (control 2, 3 symbolic bytes) then LZMA chunk class 1 with one 1-byte abstract literal, declared size off by 0; end byte + trailing byte
#[cfg_attr(kani, kani::proof)]
#[cfg_attr(kani, kani::stub(std::fmt::format, crate::verif_common::stub_format))]
#[cfg_attr(kani, kani::stub(std::io::Error::is_interrupted, crate::verif_common::stub_not_interrupted))]
#[cfg_attr(kani, kani::stub(crate::decode::lzma::DecoderState::process_next_inner, crate::decode::lzma::verif_h::abs_symbol))]
#[cfg_attr(kani, kani::stub(crate::decode::lzma::DecoderState::reset_state, crate::decode::lzma2::verif_h::observing_reset_state))]
#[cfg_attr(kani, kani::stub(crate::decode::lzbuffer::LzAccumBuffer::from_stream, crate::decode::lzbuffer::verif_h::accum_from_stream_with_capacity))]
pub fn lzma2_two_chunks_ct2_k3_c1_l1_ud0() {
    two_chunks::<2, 3, 1, 1, 0>()
}

//@ harness props=C02,C11,C17 tier=quick unwind=6 unwindset=process_mode:5,decompress:5,default_read_exact:4,two_chunks:20 mem_gb=6 timeout=600 native=no
//@ bound: LZMA2 stream: uncompressed chunk (control 1, 2 symbolic bytes) then LZMA chunk class 3 with one 2-byte abstract literal, declared size off by 0; end byte + trailing byte
#[cfg_attr(kani, kani::proof)]
#[cfg_attr(kani, kani::stub(std::fmt::format, crate::verif_common::stub_format))]
#[cfg_attr(kani, kani::stub(std::io::Error::is_interrupted, crate::verif_common::stub_not_interrupted))]
#[cfg_attr(kani, kani::stub(crate::decode::lzma::DecoderState::process_next_inner, crate::decode::lzma::verif_h::abs_symbol))]
#[cfg_attr(kani, kani::stub(crate::decode::lzma::DecoderState::reset_state, crate::decode::lzma2::verif_h::observing_reset_state))]
#[cfg_attr(kani, kani::stub(crate::decode::lzbuffer::LzAccumBuffer::from_stream, crate::decode::lzbuffer::verif_h::accum_from_stream_with_capacity))]
pub fn lzma2_two_chunks_ct1_k2_c3_l2_ud0() {
    two_chunks::<1, 2, 3, 2, 0>()
}

//@ harness props=C02,C11,C17 tier=quick unwind=6 unwindset=process_mode:5,decompress:5,default_read_exact:4,two_chunks:20 mem_gb=6 timeout=600 native=no
//@ bound: LZMA2 stream: uncompressed chunk (control 1, 2 symbolic bytes) then LZMA chunk class 2 with one 2-byte abstract literal, declared size off by 0; end byte + trailing byte
#[cfg_attr(kani, kani::proof)]
#[cfg_attr(kani, kani::stub(std::fmt::format, crate::verif_common::stub_format))]
#[cfg_attr(kani, kani::stub(std::io::Error::is_interrupted, crate::verif_common::stub_not_interrupted))]
#[cfg_attr(kani, kani::stub(crate::decode::lzma::DecoderState::process_next_inner, crate::decode::lzma::verif_h::abs_symbol))]
#[cfg_attr(kani, kani::stub(crate::decode::lzma::DecoderState::reset_state, crate::decode::lzma2::verif_h::observing_reset_state))]
#[cfg_attr(kani, kani::stub(crate::decode::lzbuffer::LzAccumBuffer::from_stream, crate::decode::lzbuffer::verif_h::accum_from_stream_with_capacity))]
pub fn lzma2_two_chunks_ct1_k2_c2_l2_ud0() {
    two_chunks::<1, 2, 2, 2, 0>()
}

//@ harness props=C02,C11,C17 tier=quick unwind=6 unwindset=process_mode:5,decompress:5,default_read_exact:4,two_chunks:20 mem_gb=6 timeout=600 native=no
//@ bound: LZMA2 stream: uncompressed chunk (control 1, 2 symbolic bytes) then LZMA chunk class 0 with one 2-byte abstract literal, declared size off by 1; end byte + trailing byte
#[cfg_attr(kani, kani::proof)]
#[cfg_attr(kani, kani::stub(std::fmt::format, crate::verif_common::stub_format))]
#[cfg_attr(kani, kani::stub(std::io::Error::is_interrupted, crate::verif_common::stub_not_interrupted))]
#[cfg_attr(kani, kani::stub(crate::decode::lzma::DecoderState::process_next_inner, crate::decode::lzma::verif_h::abs_symbol))]
#[cfg_attr(kani, kani::stub(crate::decode::lzma::DecoderState::reset_state, crate::decode::lzma2::verif_h::observing_reset_state))]
#[cfg_attr(kani, kani::stub(crate::decode::lzbuffer::LzAccumBuffer::from_stream, crate::decode::lzbuffer::verif_h::accum_from_stream_with_capacity))]
pub fn lzma2_two_chunks_ct1_k2_c0_l2_ud1() {
    two_chunks::<1, 2, 0, 2, 1>()
}

/// Failing source: the K-th reader call (read or fill_buf) fails.
fn lzma2_source_fails<const K: usize>() {
    let mut t = Tape::<16>::new();
    let body: [u8; 3] = t.bytes::<3>();
    let f = [1u8, 0, 2, body[0], body[1], body[2], 0, 0xEE];
    let mut dec = mk_decoder([script(1, K_LIT); 4]);
    let mut rd = FailReader::<8>::new(f, 8, K);
    let mut sink = RecSink::<8>::new();
    let r = dec.decompress(&mut rd, &mut sink);
    let ok = r.is_ok();
    forget(r);
    // the decoder makes 4 reader calls on this stream (status, size, payload, status)
    vassert!(ok == (K >= 4), "lzma2: a failing source is an error (never success, never a panic)");
    if !ok {
        vassert!(sink.len == 0, "lzma2: nothing is delivered for a stream cut short by a read failure");
    } else {
        vassert!(sink.len == 3, "lzma2: full output when no call failed");
    }
    vcover!(true, "end_reached");
    forget(dec);
}

//@ harness props=C12,C02 tier=thorough optional=yes unwind=8 unwindset=decompress:5,default_read_exact:4 mem_gb=6 timeout=600 native=no
//@ bound: Lzma2Decoder::decompress on one uncompressed chunk (3 symbolic bytes) + end byte with the source failing on reader call 1
#[cfg_attr(kani, kani::proof)]
#[cfg_attr(kani, kani::stub(std::fmt::format, crate::verif_common::stub_format))]
#[cfg_attr(kani, kani::stub(std::io::Error::is_interrupted, crate::verif_common::stub_not_interrupted))]
#[cfg_attr(kani, kani::stub(crate::decode::lzbuffer::LzAccumBuffer::from_stream, crate::decode::lzbuffer::verif_h::accum_from_stream_with_capacity))]
pub fn lzma2_source_fails_k1() {
    lzma2_source_fails::<1>()
}

//@ harness props=C12,C02 tier=quick unwind=8 unwindset=decompress:5,default_read_exact:4 mem_gb=6 timeout=600 native=no
//@ bound: Lzma2Decoder::decompress on one uncompressed chunk (3 symbolic bytes) + end byte with the source failing on reader call 2
#[cfg_attr(kani, kani::proof)]
#[cfg_attr(kani, kani::stub(std::fmt::format, crate::verif_common::stub_format))]
#[cfg_attr(kani, kani::stub(std::io::Error::is_interrupted, crate::verif_common::stub_not_interrupted))]
#[cfg_attr(kani, kani::stub(crate::decode::lzbuffer::LzAccumBuffer::from_stream, crate::decode::lzbuffer::verif_h::accum_from_stream_with_capacity))]
pub fn lzma2_source_fails_k2() {
    lzma2_source_fails::<2>()
}

//@ harness props=C12,C02 tier=quick unwind=8 unwindset=decompress:5,default_read_exact:4 mem_gb=6 timeout=600 native=no
//@ bound: Lzma2Decoder::decompress on one uncompressed chunk (3 symbolic bytes) + end byte with the source failing on reader call 9
#[cfg_attr(kani, kani::proof)]
#[cfg_attr(kani, kani::stub(std::fmt::format, crate::verif_common::stub_format))]
#[cfg_attr(kani, kani::stub(std::io::Error::is_interrupted, crate::verif_common::stub_not_interrupted))]
#[cfg_attr(kani, kani::stub(crate::decode::lzbuffer::LzAccumBuffer::from_stream, crate::decode::lzbuffer::verif_h::accum_from_stream_with_capacity))]
pub fn lzma2_source_fails_k9() {
    lzma2_source_fails::<9>()
}

//@ harness props=C12,C02 tier=thorough optional=yes unwind=8 unwindset=decompress:5,default_read_exact:4 mem_gb=6 timeout=600 native=no
//@ bound: Lzma2Decoder::decompress on one uncompressed chunk (3 symbolic bytes) + end byte with the source failing on reader call 0
#[cfg_attr(kani, kani::proof)]
#[cfg_attr(kani, kani::stub(std::fmt::format, crate::verif_common::stub_format))]
#[cfg_attr(kani, kani::stub(std::io::Error::is_interrupted, crate::verif_common::stub_not_interrupted))]
#[cfg_attr(kani, kani::stub(crate::decode::lzbuffer::LzAccumBuffer::from_stream, crate::decode::lzbuffer::verif_h::accum_from_stream_with_capacity))]
pub fn lzma2_source_fails_k0() {
    lzma2_source_fails::<0>()
}

//@ harness props=C12,C02 tier=thorough optional=yes unwind=8 unwindset=decompress:5,default_read_exact:4 mem_gb=6 timeout=600 native=no
//@ bound: Lzma2Decoder::decompress on one uncompressed chunk (3 symbolic bytes) + end byte with the source failing on reader call 3
#[cfg_attr(kani, kani::proof)]
#[cfg_attr(kani, kani::stub(std::fmt::format, crate::verif_common::stub_format))]
#[cfg_attr(kani, kani::stub(std::io::Error::is_interrupted, crate::verif_common::stub_not_interrupted))]
#[cfg_attr(kani, kani::stub(crate::decode::lzbuffer::LzAccumBuffer::from_stream, crate::decode::lzbuffer::verif_h::accum_from_stream_with_capacity))]
pub fn lzma2_source_fails_k3() {
    lzma2_source_fails::<3>()
}

/// Two LZMA chunks: the second of class C2 (0 = nothing reset, 1 = state reset, 2 = state +
/// props, 3 = everything). With abstract symbols the "decoder state" that is carried or reset is
/// observed through reset_state calls and through the properties in effect.
fn two_lzma_chunks<const C2: usize>() {
    let mut t = Tape::<48>::new();
    let b1: [u8; 8] = t.bytes::<8>();
    let b2: [u8; 8] = t.bytes::<8>();
    let mut f = [0u8; 40];
    let mut n = 0usize;
    // chunk 1: class 3, props 0x5D (lc3 lp0 pb2), one 2-byte literal
    f[n] = 0xE0;
    f[n + 1] = 0;
    f[n + 2] = 0;
    f[n + 3] = 0;
    f[n + 4] = 6;
    f[n + 5] = 0x5D;
    n += 6;
    let mut i = 0;
    while i < 7 {
        f[n] = b1[i];
        n += 1;
        i += 1;
    }
    // chunk 2: class C2, one 3-byte literal, props 0x00 when present
    f[n] = 0x80 | ((C2 as u8) << 5);
    f[n + 1] = 0;
    f[n + 2] = 0;
    f[n + 3] = 0;
    f[n + 4] = 7;
    n += 5;
    if C2 >= 2 {
        f[n] = 0x00;
        n += 1;
    }
    let mut j = 0;
    while j < 8 {
        f[n] = b2[j];
        n += 1;
        j += 1;
    }
    f[n] = 0;
    let end_at = n;
    f[n + 1] = 0x03;
    n += 2;
    let mut dec = mk_decoder([script(2, K_LIT), script(3, K_LIT), script(20, K_LIT), script(20, K_LIT)]);
    let mut rd = ArrReader::<40>::new(f, n);
    let mut sink = RecSink::<8>::new();
    let r = dec.decompress(&mut rd, &mut sink);
    let ok = r.is_ok();
    forget(r);
    vassert!(ok, "lzma2: two well-formed LZMA chunks decode");
    vassert!(sink.len == 2 && sink.buf[0] == b1[5] ^ b1[6] && sink.buf[1] == b2[5] ^ b2[7], "lzma2: output of both chunks, in order (the second chunk's target is window length + its own size)");
    let resets = crate::decode::lzma::verif_h::reset_count(&dec.lzma_state);
    vassert!(resets == 1 + if C2 >= 1 { 1 } else { 0 }, "lzma2: the decoder state is reset exactly by the chunks that ask for it and carried otherwise");
    let p = dec.lzma_state.lzma_props;
    if C2 >= 2 {
        vassert!(p.lc == 0 && p.lp == 0 && p.pb == 0, "lzma2: new properties replace the old ones");
    } else {
        vassert!(p.lc == 3 && p.lp == 0 && p.pb == 2, "lzma2: properties of an earlier chunk stay in effect (also across a state reset without new props)");
    }
    vassert!(sink.writes == if C2 == 3 { 3 } else { 2 }, "lzma2: dictionary reset only on class 3");
    vassert!(rd.pos == end_at + 1, "lzma2: reader left just after the end control byte");
    vcover!(true, "end_reached");
    forget(dec);
}

//@ harness props=C02,C11,C17 tier=quick unwind=6 unwindset=process_mode:5,decompress:5,default_read_exact:4,two_lzma_chunks:12 mem_gb=6 timeout=600 native=no
//@ bound: LZMA2 stream of two LZMA chunks (first: class 3 with props 0x5D; second: class 0), one abstract literal each, payloads symbolic; end byte + trailing byte
#[cfg_attr(kani, kani::proof)]
#[cfg_attr(kani, kani::stub(std::fmt::format, crate::verif_common::stub_format))]
#[cfg_attr(kani, kani::stub(std::io::Error::is_interrupted, crate::verif_common::stub_not_interrupted))]
#[cfg_attr(kani, kani::stub(crate::decode::lzma::DecoderState::process_next_inner, crate::decode::lzma::verif_h::abs_symbol))]
#[cfg_attr(kani, kani::stub(crate::decode::lzma::DecoderState::reset_state, crate::decode::lzma2::verif_h::observing_reset_state))]
#[cfg_attr(kani, kani::stub(crate::decode::lzbuffer::LzAccumBuffer::from_stream, crate::decode::lzbuffer::verif_h::accum_from_stream_with_capacity))]
pub fn lzma2_two_lzma_chunks_c0() {
    two_lzma_chunks::<0>()
}

//@ harness props=C02,C11,C17 tier=quick unwind=6 unwindset=process_mode:5,decompress:5,default_read_exact:4,two_lzma_chunks:12 mem_gb=6 timeout=600 native=no
//@ bound: LZMA2 stream of two LZMA chunks (first: class 3 with props 0x5D; second: class 1), one abstract literal each, payloads symbolic; end byte + trailing byte
#[cfg_attr(kani, kani::proof)]
#[cfg_attr(kani, kani::stub(std::fmt::format, crate::verif_common::stub_format))]
#[cfg_attr(kani, kani::stub(std::io::Error::is_interrupted, crate::verif_common::stub_not_interrupted))]
#[cfg_attr(kani, kani::stub(crate::decode::lzma::DecoderState::process_next_inner, crate::decode::lzma::verif_h::abs_symbol))]
#[cfg_attr(kani, kani::stub(crate::decode::lzma::DecoderState::reset_state, crate::decode::lzma2::verif_h::observing_reset_state))]
#[cfg_attr(kani, kani::stub(crate::decode::lzbuffer::LzAccumBuffer::from_stream, crate::decode::lzbuffer::verif_h::accum_from_stream_with_capacity))]
pub fn lzma2_two_lzma_chunks_c1() {
    two_lzma_chunks::<1>()
}

//@ harness props=C02,C11,C17 tier=quick unwind=6 unwindset=process_mode:5,decompress:5,default_read_exact:4,two_lzma_chunks:12 mem_gb=6 timeout=600 native=no
//@ bound: LZMA2 stream of two LZMA chunks (first: class 3 with props 0x5D; second: class 2), one abstract literal each, payloads symbolic; end byte + trailing byte
#[cfg_attr(kani, kani::proof)]
#[cfg_attr(kani, kani::stub(std::fmt::format, crate::verif_common::stub_format))]
#[cfg_attr(kani, kani::stub(std::io::Error::is_interrupted, crate::verif_common::stub_not_interrupted))]
#[cfg_attr(kani, kani::stub(crate::decode::lzma::DecoderState::process_next_inner, crate::decode::lzma::verif_h::abs_symbol))]
#[cfg_attr(kani, kani::stub(crate::decode::lzma::DecoderState::reset_state, crate::decode::lzma2::verif_h::observing_reset_state))]
#[cfg_attr(kani, kani::stub(crate::decode::lzbuffer::LzAccumBuffer::from_stream, crate::decode::lzbuffer::verif_h::accum_from_stream_with_capacity))]
pub fn lzma2_two_lzma_chunks_c2() {
    two_lzma_chunks::<2>()
}

//@ harness props=C02,C11,C17 tier=quick unwind=6 unwindset=process_mode:5,decompress:5,default_read_exact:4,two_lzma_chunks:12 mem_gb=6 timeout=600 native=no
//@ bound: LZMA2 stream of two LZMA chunks (first: class 3 with props 0x5D; second: class 3), one abstract literal each, payloads symbolic; end byte + trailing byte
#[cfg_attr(kani, kani::proof)]
#[cfg_attr(kani, kani::stub(std::fmt::format, crate::verif_common::stub_format))]
#[cfg_attr(kani, kani::stub(std::io::Error::is_interrupted, crate::verif_common::stub_not_interrupted))]
#[cfg_attr(kani, kani::stub(crate::decode::lzma::DecoderState::process_next_inner, crate::decode::lzma::verif_h::abs_symbol))]
#[cfg_attr(kani, kani::stub(crate::decode::lzma::DecoderState::reset_state, crate::decode::lzma2::verif_h::observing_reset_state))]
#[cfg_attr(kani, kani::stub(crate::decode::lzbuffer::LzAccumBuffer::from_stream, crate::decode::lzbuffer::verif_h::accum_from_stream_with_capacity))]
pub fn lzma2_two_lzma_chunks_c3() {
    two_lzma_chunks::<3>()
}

//@ harness props=C17,C02 tier=quick unwind=6 unwindset=decompress:4,default_read_exact:4,uncompressed_chunks:12 mem_gb=6 timeout=600 native=no
//@ bound: LZMA2: one uncompressed chunk of 3 bytes whose last payload byte is missing (input ends inside the chunk)
#[cfg_attr(kani, kani::proof)]
#[cfg_attr(kani, kani::stub(std::fmt::format, crate::verif_common::stub_format))]
#[cfg_attr(kani, kani::stub(std::io::Error::is_interrupted, crate::verif_common::stub_not_interrupted))]
#[cfg_attr(kani, kani::stub(crate::decode::lzbuffer::LzAccumBuffer::from_stream, crate::decode::lzbuffer::verif_h::accum_from_stream_with_capacity))]
pub fn lzma2_uncompressed_truncated_payload() {
    uncompressed_chunks::<1, 3, 1, 1, 2>()
}

//@ harness props=C17,C02 tier=thorough optional=yes unwind=6 unwindset=decompress:4,default_read_exact:4,uncompressed_chunks:12 mem_gb=6 timeout=600 native=no
//@ bound: LZMA2: one uncompressed chunk of 3 bytes with the end control byte missing
#[cfg_attr(kani, kani::proof)]
#[cfg_attr(kani, kani::stub(std::fmt::format, crate::verif_common::stub_format))]
#[cfg_attr(kani, kani::stub(std::io::Error::is_interrupted, crate::verif_common::stub_not_interrupted))]
#[cfg_attr(kani, kani::stub(crate::decode::lzbuffer::LzAccumBuffer::from_stream, crate::decode::lzbuffer::verif_h::accum_from_stream_with_capacity))]
pub fn lzma2_missing_end_byte() {
    uncompressed_chunks::<1, 3, 1, 1, 1>()
}


//@ harness props=C17,C02,C11 tier=quick unwind=8 unwindset=default_read_exact:4,lzma2_parse_lzma_take_limit:42 mem_gb=8 timeout=900 native=no
//@ bound: parse_lzma directly with DecoderState::process scripted (records how many payload bytes it can see): symbolic control low bits, symbolic 16-bit compressed-size field, 40 bytes available: the payload reader is limited to exactly be16 + 1 bytes
#[cfg_attr(kani, kani::proof)]
#[cfg_attr(kani, kani::stub(std::fmt::format, crate::verif_common::stub_format))]
#[cfg_attr(kani, kani::stub(std::io::Error::is_interrupted, crate::verif_common::stub_not_interrupted))]
#[cfg_attr(kani, kani::stub(crate::decode::lzma::DecoderState::process, crate::decode::lzma::DecoderState::scripted_process))]
#[cfg_attr(kani, kani::stub(crate::decode::lzma::DecoderState::reset_state, crate::decode::lzma2::verif_h::observing_reset_state))]
pub fn lzma2_parse_lzma_take_limit() {
    use std::sync::atomic::Ordering::Relaxed;
    let mut t = Tape::<64>::new();
    let hi5 = t.u8() & 0x1F;
    let packed = t.u16();
    let body: [u8; 40] = t.bytes::<40>();
    let status = 0x80u8 | hi5; // class 0
    let mut f = [0u8; 44];
    f[2] = (packed >> 8) as u8;
    f[3] = packed as u8;
    let mut i = 0;
    while i < 40 {
        f[4 + i] = body[i];
        i += 1;
    }
    crate::decode::lzma::verif_h::PR_CALLS.store(0, Relaxed);
    crate::decode::lzma::verif_h::PR_LEN.store(usize::MAX, Relaxed);
    let mut dec = mk_decoder([script(1, K_LIT); 4]);
    let mut rd = ArrReader::<44>::new(f, 44);
    let mut sink = RecSink::<4>::new();
    let mut accum = crate::decode::lzbuffer::verif_h::accum_from_stream_with_capacity(&mut sink, usize::MAX);
    let r = dec.parse_lzma(&mut accum, &mut rd, status);
    let ok = r.is_ok();
    forget(r);
    let declared = packed as usize + 1;
    if declared >= 5 {
        vassert!(ok, "lzma2: the chunk is handed to the decoder once the five preamble bytes are inside the declared size");
        let visible = crate::decode::lzma::verif_h::PR_LEN.load(Relaxed);
        let want = if declared - 5 < 35 { declared - 5 } else { 35 };
        vassert!(visible == want, "lzma2: the compressed payload reader is limited to exactly the declared compressed size (be16 + 1), whatever the control byte's size bits");
    } else {
        vassert!(!ok, "lzma2: a declared compressed size shorter than the coder preamble is rejected");
    }
    vcover!(hi5 == 0x1F && declared == 10, "high_bits_do_not_leak_into_packed_size");
    forget(accum);
    forget(dec);
}


/// Two uncompressed 2-byte chunks that both reset the dictionary, then the end byte, into a sink
/// that fails once at write call FAIL (usize::MAX = never; the fault does not persist) or accepts
/// only SHORTW bytes per write call.
fn uncompressed_sink_faults<const FAIL: usize, const SHORTW: usize>() {
    let mut t = Tape::<16>::new();
    let b: [u8; 4] = t.bytes::<4>();
    let f = [0x01u8, 0, 1, b[0], b[1], 0x01, 0, 1, b[2], b[3], 0x00, 0xEE];
    let mut dec = mk_decoder([script(1, K_LIT); 4]);
    let mut rd = ArrReader::<12>::new(f, 12);
    let mut sink = RecSink::<8>::new();
    sink.fail_at = FAIL;
    sink.short = SHORTW;
    let r = dec.decompress(&mut rd, &mut sink);
    let ok = r.is_ok();
    forget(r);
    if FAIL != usize::MAX {
        vassert!(!ok, "lzma2: a failing write of the sink (at a dictionary reset or at the end) makes the decoder fail");
        vassert!(sink.len <= 4, "lzma2: nothing is written twice after a failed write");
        let mut k = 0;
        while k < 4 {
            if k < sink.len {
                vassert!(sink.buf[k] == b[k], "lzma2: what the sink accepted before the failure is a prefix of the output");
            }
            k += 1;
        }
    } else {
        vassert!(ok, "lzma2: well-formed uncompressed chunks decode");
        vassert!(sink.len == 4 && sink.buf[0] == b[0] && sink.buf[1] == b[1] && sink.buf[2] == b[2] && sink.buf[3] == b[3], "lzma2: a sink that accepts only part of each write still receives every byte, in order (also at a dictionary reset)");
        vassert!(sink.flushes >= 1 && sink.flushed_len == 4, "lzma2: sink flushed at the end");
    }
    vcover!(true, "end_reached");
    forget(dec);
}

//@ harness props=C12,C02 tier=quick unwind=6 unwindset=decompress:5,default_read_exact:4,uncompressed_sink_faults:6,RecSink.*write_all:6 mem_gb=6 timeout=600 native=no
//@ bound: LZMA2: two dictionary-resetting uncompressed chunks of 2 symbolic bytes, sink accepting ONE byte per write call
#[cfg_attr(kani, kani::proof)]
#[cfg_attr(kani, kani::stub(std::fmt::format, crate::verif_common::stub_format))]
#[cfg_attr(kani, kani::stub(std::io::Error::is_interrupted, crate::verif_common::stub_not_interrupted))]
#[cfg_attr(kani, kani::stub(crate::decode::lzbuffer::LzAccumBuffer::from_stream, crate::decode::lzbuffer::verif_h::accum_from_stream_with_capacity))]
pub fn lzma2_uncompressed_sink_short1() {
    uncompressed_sink_faults::<{ usize::MAX }, 1>()
}

//@ harness props=C12,C02 tier=quick unwind=6 unwindset=decompress:5,default_read_exact:4,uncompressed_sink_faults:6,RecSink.*write_all:6 mem_gb=6 timeout=600 native=no
//@ bound: LZMA2: two dictionary-resetting uncompressed chunks of 2 symbolic bytes, the sink's first write call (the flush at the second dictionary reset) fails once
#[cfg_attr(kani, kani::proof)]
#[cfg_attr(kani, kani::stub(std::fmt::format, crate::verif_common::stub_format))]
#[cfg_attr(kani, kani::stub(std::io::Error::is_interrupted, crate::verif_common::stub_not_interrupted))]
#[cfg_attr(kani, kani::stub(crate::decode::lzbuffer::LzAccumBuffer::from_stream, crate::decode::lzbuffer::verif_h::accum_from_stream_with_capacity))]
pub fn lzma2_uncompressed_sink_fault0() {
    uncompressed_sink_faults::<0, 0>()
}

//@ harness props=C12,C02 tier=quick unwind=6 unwindset=decompress:5,default_read_exact:4,uncompressed_sink_faults:6,RecSink.*write_all:6 mem_gb=6 timeout=600 native=no
//@ bound: LZMA2: two dictionary-resetting uncompressed chunks of 2 symbolic bytes, the sink's second write call fails once
#[cfg_attr(kani, kani::proof)]
#[cfg_attr(kani, kani::stub(std::fmt::format, crate::verif_common::stub_format))]
#[cfg_attr(kani, kani::stub(std::io::Error::is_interrupted, crate::verif_common::stub_not_interrupted))]
#[cfg_attr(kani, kani::stub(crate::decode::lzbuffer::LzAccumBuffer::from_stream, crate::decode::lzbuffer::verif_h::accum_from_stream_with_capacity))]
pub fn lzma2_uncompressed_sink_fault1() {
    uncompressed_sink_faults::<1, 0>()
}


//@ harness props=C02,C09,C17 tier=quick unwind=8 unwindset=default_read_exact:4,lzma2_parse_lzma_status_flags:10 mem_gb=8 timeout=900 native=no
//@ bound: parse_lzma directly with a fully SYMBOLIC control byte >= 0x80 (reset class and all five size bits), symbolic 16-bit size field, `process` scripted, `reset_state` observed, window pre-filled with one byte: dictionary reset iff class 3 (whatever the size bits), state reset iff class >= 1, properties read iff class >= 2, target = window length after the reset + declared size
#[cfg_attr(kani, kani::proof)]
#[cfg_attr(kani, kani::stub(std::fmt::format, crate::verif_common::stub_format))]
#[cfg_attr(kani, kani::stub(std::io::Error::is_interrupted, crate::verif_common::stub_not_interrupted))]
#[cfg_attr(kani, kani::stub(crate::decode::lzma::DecoderState::process, crate::decode::lzma::DecoderState::scripted_process))]
#[cfg_attr(kani, kani::stub(crate::decode::lzma::DecoderState::reset_state, crate::decode::lzma2::verif_h::observing_reset_state))]
pub fn lzma2_parse_lzma_status_flags() {
    use std::sync::atomic::Ordering::Relaxed;
    let mut t = Tape::<32>::new();
    let status = 0x80u8 | (t.u8() & 0x7F);
    let ulo = t.u16();
    let class = (status >> 5) & 3;
    let hi5 = status & 0x1F;
    // layout with the properties byte present (0x5D); for classes 0/1 that byte is simply the
    // first payload byte
    let f = [(ulo >> 8) as u8, ulo as u8, 0, 6, 0x5D, 1, 2, 3, 4, 5, 6, 0xEE];
    crate::decode::lzma::verif_h::PR_CALLS.store(0, Relaxed);
    crate::decode::lzma::verif_h::PR_LEN.store(usize::MAX, Relaxed);
    let mut dec = mk_decoder([script(1, K_LIT); 4]);
    let mut rd = ArrReader::<12>::new(f, 12);
    let mut sink = RecSink::<4>::new();
    let mut accum = crate::decode::lzbuffer::verif_h::accum_from_stream_with_capacity(&mut sink, usize::MAX);
    let pre = accum.append_literal(0xAA);
    forget(pre);
    let r = dec.parse_lzma(&mut accum, &mut rd, status);
    let ok = r.is_ok();
    forget(r);
    let window_after = accum.len();
    forget(accum);
    vassert!(ok, "lzma2: a well-formed chunk header is accepted for every control byte >= 0x80");
    vassert!((sink.len == 1) == (class == 3) && (window_after == 0) == (class == 3), "lzma2: dictionary reset (flush) iff control class 3");
    vassert!(crate::decode::lzma::verif_h::reset_count(&dec.lzma_state) == if class >= 1 { 1 } else { 0 }, "lzma2: the decoder state is reset exactly by the chunks that ask for it and carried otherwise");
    let p = dec.lzma_state.lzma_props;
    if class >= 2 {
        vassert!(p.lc == 3 && p.lp == 0 && p.pb == 2, "lzma2: new properties replace the old ones");
    } else {
        vassert!(p.lc == 0 && p.lp == 0 && p.pb == 0, "lzma2: properties of an earlier chunk stay in effect (also across a state reset without new props)");
    }
    let declared = (((hi5 as u64) << 16) | (ulo as u64)) + 1;
    let base: u64 = if class == 3 { 0 } else { 1 };
    vassert!(crate::decode::lzma::verif_h::unpacked_size_of(&dec.lzma_state) == Some(base + declared), "lzma2: per-chunk target = window length + declared size");
    vassert!(crate::decode::lzma::verif_h::PR_CALLS.load(Relaxed) == 1, "lzma2: the chunk is handed to the decoder once the five preamble bytes are inside the declared size");
    vcover!(class == 3 && hi5 != 0, "dict_reset_with_size_bits");
    vcover!(class == 0, "class0");
    forget(dec);
}

/// Input that ends at a chunk boundary (NCH uncompressed chunks of K bytes, no end control
/// byte), read through EofCutReader: no path may report success. Paths on which the source's
/// read_exact runs dry end at the witness (the real code propagates that error with `?`).
fn missing_end_cut<const NCH: usize, const K: usize>() {
    missing_end_cut_short::<NCH, K, 0>()
}

/// As above with the last SHORT bytes of the input removed as well (input ends inside a chunk).
fn missing_end_cut_short<const NCH: usize, const K: usize, const SHORT: usize>() {
    let mut t = Tape::<32>::new();
    let body: [u8; 16] = t.bytes::<16>();
    let mut f = [0u8; 32];
    let mut n = 0usize;
    let mut c = 0;
    while c < NCH {
        f[n] = 1;
        f[n + 1] = ((K - 1) >> 8) as u8;
        f[n + 2] = (K - 1) as u8;
        n += 3;
        let mut i = 0;
        while i < K {
            f[n] = body[c * K + i];
            n += 1;
            i += 1;
        }
        c += 1;
    }
    let mut dec = mk_decoder([script(1, K_LIT); 4]);
    let mut rd = EofCutReader::<32>::new(f, n - SHORT);
    let mut sink = RecSink::<16>::new();
    let r = dec.decompress(&mut rd, &mut sink);
    let ok = r.is_ok();
    forget(r);
    vassert!(!ok, "lzma2: input ending at a chunk boundary, before the end control byte, is never accepted");
    forget(dec);
}

//@ harness props=C17,C02,C13 tier=quick unwind=6 unwindset=decompress:4,missing_end_cut_short:12,EofCutReader.*read:8 mem_gb=6 timeout=600 native=no
//@ bound: LZMA2: empty input (end of input where the first control byte is expected); source EOF in read_exact is a witness that ends the path
#[cfg_attr(kani, kani::proof)]
#[cfg_attr(kani, kani::stub(std::fmt::format, crate::verif_common::stub_format))]
#[cfg_attr(kani, kani::stub(std::io::Error::is_interrupted, crate::verif_common::stub_not_interrupted))]
#[cfg_attr(kani, kani::stub(crate::decode::lzbuffer::LzAccumBuffer::from_stream, crate::decode::lzbuffer::verif_h::accum_from_stream_with_capacity))]
pub fn lzma2_missing_end_cut_empty() {
    missing_end_cut::<0, 1>()
}

//@ harness props=C17,C02,C13 tier=quick unwind=6 unwindset=decompress:4,missing_end_cut_short:12,EofCutReader.*read:8 mem_gb=6 timeout=600 native=no
//@ bound: LZMA2: one uncompressed chunk of 3 symbolic bytes, then end of input where the next control byte is expected; source EOF in read_exact is a witness that ends the path
#[cfg_attr(kani, kani::proof)]
#[cfg_attr(kani, kani::stub(std::fmt::format, crate::verif_common::stub_format))]
#[cfg_attr(kani, kani::stub(std::io::Error::is_interrupted, crate::verif_common::stub_not_interrupted))]
#[cfg_attr(kani, kani::stub(crate::decode::lzbuffer::LzAccumBuffer::from_stream, crate::decode::lzbuffer::verif_h::accum_from_stream_with_capacity))]
pub fn lzma2_missing_end_cut_1x3() {
    missing_end_cut::<1, 3>()
}

//@ harness props=C17 tier=quick unwind=6 unwindset=decompress:5,missing_end_cut_short:12,EofCutReader.*read:8 mem_gb=6 timeout=600 native=no
//@ bound: LZMA2: two uncompressed chunks of 2 symbolic bytes, then end of input where the third control byte is expected; source EOF in read_exact is a witness that ends the path
#[cfg_attr(kani, kani::proof)]
#[cfg_attr(kani, kani::stub(std::fmt::format, crate::verif_common::stub_format))]
#[cfg_attr(kani, kani::stub(std::io::Error::is_interrupted, crate::verif_common::stub_not_interrupted))]
#[cfg_attr(kani, kani::stub(crate::decode::lzbuffer::LzAccumBuffer::from_stream, crate::decode::lzbuffer::verif_h::accum_from_stream_with_capacity))]
pub fn lzma2_missing_end_cut_2x2() {
    missing_end_cut_short::<2, 2, 0>()
}

//@ harness props=C17 tier=quick unwind=6 unwindset=decompress:5,missing_end_cut_short:12,EofCutReader.*read:8 mem_gb=6 timeout=600 native=no
//@ bound: LZMA2: input ends inside the size field of an uncompressed chunk (control byte + 1 byte); source EOF in read_exact is a witness that ends the path
#[cfg_attr(kani, kani::proof)]
#[cfg_attr(kani, kani::stub(std::fmt::format, crate::verif_common::stub_format))]
#[cfg_attr(kani, kani::stub(std::io::Error::is_interrupted, crate::verif_common::stub_not_interrupted))]
#[cfg_attr(kani, kani::stub(crate::decode::lzbuffer::LzAccumBuffer::from_stream, crate::decode::lzbuffer::verif_h::accum_from_stream_with_capacity))]
pub fn lzma2_cut_inside_size_field() {
    missing_end_cut_short::<1, 3, 4>()
}

//@ harness props=C17 tier=quick unwind=6 unwindset=decompress:5,missing_end_cut_short:12,EofCutReader.*read:8 mem_gb=6 timeout=600 native=no
//@ bound: LZMA2: second of two uncompressed chunks lacks its last payload byte; source EOF in read_exact is a witness that ends the path
#[cfg_attr(kani, kani::proof)]
#[cfg_attr(kani, kani::stub(std::fmt::format, crate::verif_common::stub_format))]
#[cfg_attr(kani, kani::stub(std::io::Error::is_interrupted, crate::verif_common::stub_not_interrupted))]
#[cfg_attr(kani, kani::stub(crate::decode::lzbuffer::LzAccumBuffer::from_stream, crate::decode::lzbuffer::verif_h::accum_from_stream_with_capacity))]
pub fn lzma2_cut_inside_second_payload() {
    missing_end_cut_short::<2, 2, 1>()
}
