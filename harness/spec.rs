// Transcription of the LZMA symbol decoder from the LZMA specification (7-Zip's
// LzmaSpec.cpp, "LZMA specification (DRAFT)"), written independently of src/decode/lzma.rs.
// It is parametric in where decisions come from (BitSrc) and in the window view (Win), so the
// same text serves
//   * as the oracle of the one-symbol conformance harnesses (decisions = tape bits, and the
//     transcript of which probability cell each decision used is compared with the real code),
//   * natively, assembled with a reference range decoder, as a complete decoder that is run on
//     the repository's test files on every check (translator validation, see `native_decode`).
#![allow(dead_code, unused_imports, unused_variables, unused_mut, missing_docs)]

// probability tables (logical names)
pub const T_IS_MATCH: u8 = 1; // [state << 4 | pos_state]
pub const T_IS_REP: u8 = 2; // [state]
pub const T_IS_REP_G0: u8 = 3;
pub const T_IS_REP_G1: u8 = 4;
pub const T_IS_REP_G2: u8 = 5;
pub const T_IS_REP0_LONG: u8 = 6; // [state << 4 | pos_state]
pub const T_LIT: u8 = 7; // [lit_state * 0x300 + i]
pub const T_LEN_CHOICE: u8 = 8; // [0] match len, [1] rep len
pub const T_LEN_CHOICE2: u8 = 9;
pub const T_LEN_LOW: u8 = 10; // [rep*16*8 + pos_state*8 + m]
pub const T_LEN_MID: u8 = 11;
pub const T_LEN_HIGH: u8 = 12; // [rep*256 + m]
pub const T_POS_SLOT: u8 = 13; // [len_state*64 + m]
pub const T_POS_DEC: u8 = 14; // [i] (115 cells; index = base - slot + m)
pub const T_ALIGN: u8 = 15; // [m]
pub const T_DIRECT: u8 = 0; // not a cell: one fixed-probability (direct) bit

#[derive(Clone, Copy, PartialEq, Eq, Debug)]
pub struct Props {
    pub lc: u32,
    pub lp: u32,
    pub pb: u32,
}

#[derive(Clone, Copy, PartialEq, Eq, Debug)]
pub struct SpecSt {
    pub state: usize,
    pub rep: [usize; 4],
}

#[derive(Clone, Copy, PartialEq, Eq, Debug)]
pub enum SpecOut {
    /// literal byte appended
    Lit(u8),
    /// copy `len` bytes from `dist` back (dist = rep0 + 1)
    Copy { len: usize, dist: usize },
    /// end marker decoded and the coder reports a clean finish
    Marker,
    /// end marker decoded but the stream does not end here / code != 0
    MarkerBad,
    /// decisions exhausted (input too short)
    Short,
    /// a literal needed the byte at rep0+1 but it is outside the window
    BadMatchByte,
    /// a probability index outside its table (impossible for valid props)
    BadIndex,
}

pub trait BitSrc {
    /// adaptive decision on cell (table, idx); None = input exhausted
    fn bit(&mut self, table: u8, idx: usize) -> Option<bool>;
    /// one direct bit
    fn direct(&mut self) -> Option<bool>;
    /// RangeDec.IsFinishedOK()
    fn finished_ok(&mut self) -> bool;
}

pub trait Win {
    fn total(&self) -> usize;
    /// byte at distance `dist` (1 = newest) or None when outside the window
    fn back(&self, dist: usize) -> Option<u8>;
}

#[inline]
fn lit_next(state: usize) -> usize {
    if state < 4 {
        0
    } else if state < 10 {
        state - 3
    } else {
        state - 6
    }
}

fn bit_tree<S: BitSrc>(src: &mut S, table: u8, base: usize, nbits: usize) -> Option<usize> {
    let mut m: usize = 1;
    let mut i = 0;
    while i < nbits {
        let b = src.bit(table, base + m)?;
        m = (m << 1) + (b as usize);
        i += 1;
    }
    Some(m - (1usize << nbits))
}

fn bit_tree_rev<S: BitSrc>(src: &mut S, table: u8, base: usize, nbits: usize) -> Option<usize> {
    let mut m: usize = 1;
    let mut sym: usize = 0;
    let mut i = 0;
    while i < nbits {
        let b = src.bit(table, base + m)?;
        m = (m << 1) + (b as usize);
        sym |= (b as usize) << i;
        i += 1;
    }
    Some(sym)
}

fn len_decode<S: BitSrc>(src: &mut S, rep: usize, pos_state: usize) -> Option<usize> {
    if !src.bit(T_LEN_CHOICE, rep)? {
        return bit_tree(src, T_LEN_LOW, rep * 128 + pos_state * 8, 3);
    }
    if !src.bit(T_LEN_CHOICE2, rep)? {
        return Some(8 + bit_tree(src, T_LEN_MID, rep * 128 + pos_state * 8, 3)?);
    }
    Some(16 + bit_tree(src, T_LEN_HIGH, rep * 256, 8)?)
}

fn decode_distance<S: BitSrc>(src: &mut S, len: usize) -> Option<usize> {
    let len_state = if len > 3 { 3 } else { len };
    let pos_slot = bit_tree(src, T_POS_SLOT, len_state * 64, 6)?;
    if pos_slot < 4 {
        return Some(pos_slot);
    }
    let num_direct = (pos_slot >> 1) - 1;
    let mut dist = (2 | (pos_slot & 1)) << num_direct;
    if pos_slot < 14 {
        dist += bit_tree_rev(src, T_POS_DEC, dist - pos_slot, num_direct)?;
    } else {
        let mut d: usize = 0;
        let mut i = 0;
        while i < num_direct - 4 {
            d = (d << 1) | (src.direct()? as usize);
            i += 1;
        }
        dist += d << 4;
        dist += bit_tree_rev(src, T_ALIGN, 0, 4)?;
    }
    Some(dist)
}

fn decode_literal<S: BitSrc, W: Win>(p: Props, st: &SpecSt, win: &W, src: &mut S) -> Result<u8, SpecOut> {
    let prev = if win.total() == 0 { 0u8 } else { win.back(1).unwrap_or(0) };
    let lit_state = ((win.total() & ((1usize << p.lp) - 1)) << p.lc) + ((prev as usize) >> (8 - p.lc));
    let base = 0x300 * lit_state;
    let mut symbol: usize = 1;
    if st.state >= 7 {
        let mut match_byte = match win.back(st.rep[0] + 1) {
            Some(b) => b as usize,
            None => return Err(SpecOut::BadMatchByte),
        };
        loop {
            let match_bit = (match_byte >> 7) & 1;
            match_byte <<= 1;
            let bit = match src.bit(T_LIT, base + ((1 + match_bit) << 8) + symbol) {
                Some(b) => b as usize,
                None => return Err(SpecOut::Short),
            };
            symbol = (symbol << 1) | bit;
            if match_bit != bit {
                break;
            }
            if symbol >= 0x100 {
                break;
            }
        }
    }
    while symbol < 0x100 {
        let bit = match src.bit(T_LIT, base + symbol) {
            Some(b) => b as usize,
            None => return Err(SpecOut::Short),
        };
        symbol = (symbol << 1) | bit;
    }
    Ok((symbol - 0x100) as u8)
}

/// One iteration of the specification's decode loop (without the size bookkeeping, which
/// belongs to the caller): decodes one symbol, updates `st`, says what to do to the window.
pub fn spec_symbol<S: BitSrc, W: Win>(p: Props, st: &mut SpecSt, win: &W, src: &mut S) -> SpecOut {
    let pos_state = win.total() & ((1usize << p.pb) - 1);
    let state = st.state;
    let b = match src.bit(T_IS_MATCH, (state << 4) + pos_state) {
        Some(b) => b,
        None => return SpecOut::Short,
    };
    if !b {
        let byte = match decode_literal(p, st, win, src) {
            Ok(x) => x,
            Err(e) => return e,
        };
        st.state = lit_next(state);
        return SpecOut::Lit(byte);
    }
    let is_rep = match src.bit(T_IS_REP, state) {
        Some(b) => b,
        None => return SpecOut::Short,
    };
    let len: usize;
    if is_rep {
        let g0 = match src.bit(T_IS_REP_G0, state) {
            Some(b) => b,
            None => return SpecOut::Short,
        };
        if !g0 {
            let long = match src.bit(T_IS_REP0_LONG, (state << 4) + pos_state) {
                Some(b) => b,
                None => return SpecOut::Short,
            };
            if !long {
                st.state = if state < 7 { 9 } else { 11 };
                return SpecOut::Copy {
                    len: 1,
                    dist: st.rep[0] + 1,
                };
            }
        } else {
            let g1 = match src.bit(T_IS_REP_G1, state) {
                Some(b) => b,
                None => return SpecOut::Short,
            };
            let dist;
            if !g1 {
                dist = st.rep[1];
            } else {
                let g2 = match src.bit(T_IS_REP_G2, state) {
                    Some(b) => b,
                    None => return SpecOut::Short,
                };
                if !g2 {
                    dist = st.rep[2];
                } else {
                    dist = st.rep[3];
                    st.rep[3] = st.rep[2];
                }
                st.rep[2] = st.rep[1];
            }
            st.rep[1] = st.rep[0];
            st.rep[0] = dist;
        }
        len = match len_decode(src, 1, pos_state) {
            Some(l) => l,
            None => return SpecOut::Short,
        };
        st.state = if state < 7 { 8 } else { 11 };
    } else {
        st.rep[3] = st.rep[2];
        st.rep[2] = st.rep[1];
        st.rep[1] = st.rep[0];
        len = match len_decode(src, 0, pos_state) {
            Some(l) => l,
            None => return SpecOut::Short,
        };
        st.state = if state < 7 { 7 } else { 10 };
        let d = match decode_distance(src, len) {
            Some(d) => d,
            None => return SpecOut::Short,
        };
        st.rep[0] = d;
        if d == 0xFFFF_FFFF {
            return if src.finished_ok() {
                SpecOut::Marker
            } else {
                SpecOut::MarkerBad
            };
        }
    }
    SpecOut::Copy {
        len: len + 2,
        dist: st.rep[0] + 1,
    }
}

// ---------------------------------------------------------------------------------------
// Native only: a complete reference decoder assembled from the transcription.
// ---------------------------------------------------------------------------------------
#[cfg(not(kani))]
pub mod native_decode {
    use super::*;
    use std::collections::HashMap;

    pub struct RefRc<'a> {
        pub data: &'a [u8],
        pub pos: usize,
        pub range: u32,
        pub code: u32,
        pub probs: HashMap<(u8, usize), u16>,
        pub corrupted: bool,
    }

    impl<'a> RefRc<'a> {
        pub fn new(data: &'a [u8]) -> Option<Self> {
            if data.len() < 5 {
                return None;
            }
            let code = u32::from_be_bytes([data[1], data[2], data[3], data[4]]);
            Some(RefRc {
                data,
                pos: 5,
                range: 0xFFFF_FFFF,
                code,
                probs: HashMap::new(),
                corrupted: data[0] != 0,
            })
        }
        fn normalize(&mut self) -> Option<()> {
            if self.range < (1 << 24) {
                if self.pos >= self.data.len() {
                    return None;
                }
                self.range <<= 8;
                self.code = (self.code << 8) | (self.data[self.pos] as u32);
                self.pos += 1;
            }
            Some(())
        }
    }

    impl<'a> BitSrc for RefRc<'a> {
        fn bit(&mut self, table: u8, idx: usize) -> Option<bool> {
            let p = *self.probs.get(&(table, idx)).unwrap_or(&1024);
            let bound = (self.range >> 11) * (p as u32);
            let bit;
            let np;
            if self.code < bound {
                np = p + ((2048 - p) >> 5);
                self.range = bound;
                bit = false;
            } else {
                np = p - (p >> 5);
                self.code -= bound;
                self.range -= bound;
                bit = true;
            }
            self.probs.insert((table, idx), np);
            self.normalize()?;
            Some(bit)
        }
        fn direct(&mut self) -> Option<bool> {
            self.range >>= 1;
            let b = self.code >= self.range;
            if b {
                self.code -= self.range;
            }
            self.normalize()?;
            Some(b)
        }
        fn finished_ok(&mut self) -> bool {
            self.code == 0 && self.pos == self.data.len()
        }
    }

    pub struct VecWin<'a> {
        pub out: &'a Vec<u8>,
        pub dict: usize,
    }
    impl<'a> Win for VecWin<'a> {
        fn total(&self) -> usize {
            self.out.len()
        }
        fn back(&self, dist: usize) -> Option<u8> {
            if dist == 0 || dist > self.out.len() || dist > self.dict {
                None
            } else {
                Some(self.out[self.out.len() - dist])
            }
        }
    }

    /// Decode a raw LZMA payload (after the header). `size` = Some(n): stop at n bytes;
    /// None: run to the end marker. Mirrors the specification's Decode() loop.
    pub fn decode_payload(p: Props, dict: usize, size: Option<u64>, data: &[u8]) -> Result<Vec<u8>, String> {
        let mut rc = RefRc::new(data).ok_or("short preamble")?;
        let mut st = SpecSt { state: 0, rep: [0; 4] };
        let mut out: Vec<u8> = Vec::new();
        loop {
            if let Some(n) = size {
                if out.len() as u64 >= n {
                    break;
                }
            }
            let o = {
                let w = VecWin { out: &out, dict };
                spec_symbol(p, &mut st, &w, &mut rc)
            };
            match o {
                SpecOut::Lit(b) => out.push(b),
                SpecOut::Copy { len, dist } => {
                    if dist > out.len() || dist > dict {
                        return Err(format!("distance {} beyond window", dist));
                    }
                    for _ in 0..len {
                        let b = out[out.len() - dist];
                        out.push(b);
                    }
                }
                SpecOut::Marker => {
                    if let Some(n) = size {
                        if out.len() as u64 != n {
                            return Err("marker before declared size".into());
                        }
                    }
                    return Ok(out);
                }
                other => return Err(format!("{:?}", other)),
            }
        }
        if let Some(n) = size {
            if out.len() as u64 != n {
                return Err("overshoot".into());
            }
        }
        Ok(out)
    }

    /// Decode a .lzma file (13-byte header).
    pub fn decode_lzma_file(f: &[u8]) -> Result<Vec<u8>, String> {
        if f.len() < 13 {
            return Err("short header".into());
        }
        let d = f[0] as u32;
        if d >= 225 {
            return Err("props".into());
        }
        let p = Props {
            lc: d % 9,
            lp: (d / 9) % 5,
            pb: d / 45,
        };
        let mut dict = u32::from_le_bytes([f[1], f[2], f[3], f[4]]) as usize;
        if dict < 4096 {
            dict = 4096;
        }
        let sz = u64::from_le_bytes([f[5], f[6], f[7], f[8], f[9], f[10], f[11], f[12]]);
        let size = if sz == u64::MAX { None } else { Some(sz) };
        decode_payload(p, dict, size, &f[13..])
    }
}

/// Translator validation (native only): decode every `*.lzma` file of the repository's test
/// corpus, and a few outputs of the crate's own encoder, with the decoder assembled from the
/// transcription above and with the real `lzma_decompress`; both must agree byte for byte.
#[cfg(not(kani))]
pub fn translator_validation(dir: &str) -> (usize, usize, Vec<String>) {
    let mut checked = 0usize;
    let mut bad = 0usize;
    let mut names: Vec<String> = Vec::new();
    let mut inputs: Vec<(String, Vec<u8>)> = Vec::new();
    if let Ok(rd) = std::fs::read_dir(dir) {
        for e in rd.flatten() {
            let p = e.path();
            if p.extension().map(|x| x == "lzma").unwrap_or(false) {
                if let Ok(d) = std::fs::read(&p) {
                    inputs.push((p.file_name().unwrap().to_string_lossy().to_string(), d));
                }
            }
        }
    }
    for (k, plain) in [&b""[..], &b"a"[..], &b"hello hello hello hello"[..], &[0xFFu8; 300][..]].iter().enumerate() {
        let mut c = Vec::new();
        if crate::lzma_compress(&mut &plain[..], &mut c).is_ok() {
            inputs.push((format!("encoder-output-{}", k), c));
        }
    }
    for (name, data) in inputs {
        let mut real = Vec::new();
        let r = crate::lzma_decompress(&mut &data[..], &mut real);
        let s = native_decode::decode_lzma_file(&data);
        checked += 1;
        let agree = match (&r, &s) {
            (Ok(()), Ok(v)) => *v == real,
            (Err(_), Err(_)) => true,
            _ => false,
        };
        if !agree {
            bad += 1;
        }
        names.push(format!("{}:{}", name, if agree { "agree" } else { "DISAGREE" }));
    }
    (checked, bad, names)
}
