// Harnesses over src/decode/rangecoder.rs (child module: sees private items).
// Real arithmetic, arbitrary coder state: each query is one inductive step.
#![allow(dead_code, unused_imports, unused_variables, unused_mut)]

use super::*;
use crate::verif_common::*;

pub const TOP: u32 = 0x0100_0000;

/// Reference transcription of one adaptive-bit decode step (LZMA spec, rc_bit):
/// returns (bit, range', code', prob', shifted)
pub fn spec_decode_bit(range: u32, code: u32, prob: u16, next: u8) -> (bool, u32, u32, u16, bool) {
    let bound = (range >> 11).wrapping_mul(prob as u32);
    let (bit, mut r, mut c, p) = if code < bound {
        (false, bound, code, prob + ((2048 - prob) >> 5))
    } else {
        (true, range - bound, code - bound, prob - (prob >> 5))
    };
    let mut shifted = false;
    if r < TOP {
        r <<= 8;
        c = (c << 8) | (next as u32);
        shifted = true;
    }
    (bit, r, c, p, shifted)
}

//@ harness props=C01,C07,C11 tier=quick unwind=3 mem_gb=3 timeout=300
//@ bound: one decode_bit from every (range>=2^24, code, prob in 31..=2017), one symbolic next byte
#[cfg_attr(kani, kani::proof)]
pub fn rc_decode_bit_step() {
    let mut t = Tape::<16>::new();
    let range = t.u32();
    let code = t.u32();
    let p0 = t.u16();
    let nb = t.u8();
    let update = t.bool();
    assume(range >= TOP);
    assume(p0 >= 31 && p0 <= 2017);
    let mut rd = ArrReader::<1>::new([nb], 1);
    let mut rc = RangeDecoder::from_parts(&mut rd, range, code);
    let mut p = p0;
    let r = rc.decode_bit(&mut p, update);
    let (sbit, sr, sc, sp, sshift) = spec_decode_bit(range, code, p0, nb);
    let ok = r.is_ok();
    vassert!(ok, "decode_bit with a byte available succeeds");
    if let Ok(bit) = &r {
        vassert!(*bit == sbit, "decode_bit: bit equals spec");
        vassert!(rc.range == sr, "decode_bit: range equals spec");
        vassert!(rc.code == sc, "decode_bit: code equals spec");
        vassert!(rc.range >= TOP, "decode_bit: range normalised");
        if update {
            vassert!(p == sp, "decode_bit: prob update equals spec");
        } else {
            vassert!(p == p0, "decode_bit: dry run leaves prob");
        }
        vassert!(p >= 31 && p <= 2017, "decode_bit: prob invariant closed");
        if code < range {
            vassert!(rc.code < rc.range, "decode_bit: code<range preserved");
        }
        vcover!(*bit && sshift, "bit1_shift");
        vcover!(!*bit && sshift, "bit0_shift");
        vcover!(!sshift, "noshift");
    }
    forget(r);
    let used = rd.pos;
    vassert!(used == if sshift { 1 } else { 0 }, "decode_bit: reads exactly one byte iff it shifts");
    vassert!(rd.fills == 0, "decode_bit: never peeks ahead");
}

//@ harness props=C07,C12 tier=quick unwind=3 mem_gb=3 timeout=300
//@ bound: one decode_bit on an exhausted reader, arbitrary state (code may be >= range)
#[cfg_attr(kani, kani::proof)]
pub fn rc_decode_bit_eof() {
    let mut t = Tape::<16>::new();
    let range = t.u32();
    let code = t.u32();
    let p0 = t.u16();
    assume(range >= TOP);
    assume(p0 >= 31 && p0 <= 2017);
    let mut rd = ArrReader::<1>::new([0], 0);
    let mut rc = RangeDecoder::from_parts(&mut rd, range, code);
    let mut p = p0;
    let r = rc.decode_bit(&mut p, true);
    let (_sbit, _sr, _sc, _sp, sshift) = spec_decode_bit(range, code, p0, 0);
    vassert!(r.is_err() == sshift, "decode_bit at EOF: Err iff a byte was needed");
    vcover!(r.is_err(), "eof_err");
    vcover!(r.is_ok(), "eof_ok");
    forget(r);
}

//@ harness props=C01,C07,C11 tier=quick unwind=6 mem_gb=3 timeout=300
//@ bound: get(n) for n<=3 direct bits from every (range>=2^24, code<range), 4 symbolic bytes
#[cfg_attr(kani, kani::proof)]
pub fn rc_get_direct_bits() {
    let mut t = Tape::<16>::new();
    let range = t.u32();
    let code = t.u32();
    let n = (t.u8() % 4) as usize;
    let data: [u8; 4] = t.bytes::<4>();
    assume(range >= TOP);
    let mut rd = ArrReader::<4>::new(data, 4);
    let mut rc = RangeDecoder::from_parts(&mut rd, range, code);
    let r = rc.get(n);
    // spec: n halvings, MSB first
    let mut sr = range;
    let mut sc = code;
    let mut res = 0u32;
    let mut k = 0usize;
    let mut i = 0;
    while i < 4 {
        if i < n {
            sr >>= 1;
            let b = sc >= sr;
            if b {
                sc -= sr;
            }
            if sr < TOP {
                sr <<= 8;
                sc = (sc << 8) | (data[k] as u32);
                k += 1;
            }
            res = (res << 1) | (b as u32);
        }
        i += 1;
    }
    vassert!(r.is_ok(), "get: succeeds with bytes available");
    if let Ok(v) = &r {
        vassert!(*v == res, "get: value equals spec (MSB first)");
        vassert!(rc.range == sr && rc.code == sc, "get: state equals spec");
        vassert!(rc.range >= TOP, "get: range normalised");
        vcover!(n == 3 && k >= 1, "get3_shift");
        vcover!(n == 0, "get0");
    }
    forget(r);
    vassert!(rd.pos == k, "get: consumes exactly the shifted bytes");
}

//@ harness props=C01,C05,C11,C13 tier=quick unwind=7 mem_gb=3 timeout=300
//@ bound: RangeDecoder::new on 0..=6 available bytes (symbolic contents, symbolic count)
#[cfg_attr(kani, kani::proof)]
pub fn rc_new_preamble() {
    let mut t = Tape::<16>::new();
    let data: [u8; 6] = t.bytes::<6>();
    let end = (t.u8() % 7) as usize;
    let mut rd = ArrReader::<6>::new(data, end);
    let r = RangeDecoder::new(&mut rd);
    match &r {
        Ok(rc) => {
            vassert!(end >= 5, "new: Ok needs five bytes");
            vassert!(rc.range == 0xFFFF_FFFF, "new: range");
            vassert!(
                rc.code == u32::from_be_bytes([data[1], data[2], data[3], data[4]]),
                "new: code is big-endian bytes 1..5, byte 0 ignored"
            );
            vcover!(true, "new_ok");
        }
        Err(_) => {
            vassert!(end < 5, "new: Err only when fewer than five bytes");
            vcover!(true, "new_err");
        }
    }
    forget(r);
    if end >= 5 {
        vassert!(rd.pos == 5, "new: consumes exactly five bytes");
    }
}

//@ harness props=C08,C11 tier=quick unwind=3 mem_gb=3 timeout=300
//@ bound: is_finished_ok / is_eof for every code, 0 or 1 byte left
#[cfg_attr(kani, kani::proof)]
pub fn rc_finished_ok() {
    let mut t = Tape::<16>::new();
    let range = t.u32();
    let code = t.u32();
    let left = (t.u8() & 1) as usize;
    let mut rd = ArrReader::<1>::new([t.u8()], left);
    let mut rc = RangeDecoder::from_parts(&mut rd, range, code);
    let r = rc.is_finished_ok();
    let e = rc.is_eof();
    if let (Ok(f), Ok(eof)) = (&r, &e) {
        vassert!(*f == (code == 0 && left == 0), "is_finished_ok iff code==0 and input exhausted");
        vassert!(*eof == (left == 0), "is_eof iff input exhausted");
        vcover!(*f, "finished");
        vcover!(!*f && code == 0, "code0_but_bytes_left");
    } else {
        vassert!(false, "is_finished_ok/is_eof never fail on a healthy reader");
    }
    forget(r);
    forget(e);
    vassert!(rd.pos == 0, "is_finished_ok consumes nothing");
}

//@ harness props=C01 tier=thorough optional=yes unwind=10 mem_gb=8 timeout=1800
//@ bound: 3-bit forward tree and 3-bit reverse tree, real arithmetic, every (range,code), probs in 31..=2017, 3 symbolic bytes
#[cfg_attr(kani, kani::proof)]
pub fn rc_bittree_real() {
    let mut t = Tape::<48>::new();
    let range = t.u32();
    let code = t.u32();
    let rev = t.bool();
    let data: [u8; 3] = t.bytes::<3>();
    let mut probs = [0u16; 8];
    let mut i = 0;
    while i < 8 {
        probs[i] = t.u16();
        assume(probs[i] >= 31 && probs[i] <= 2017);
        i += 1;
    }
    assume(range >= TOP);
    let mut tree = BitTree::<8>::new();
    tree.probs = probs;
    let mut rd = ArrReader::<3>::new(data, 3);
    let mut rc = RangeDecoder::from_parts(&mut rd, range, code);
    let r = if rev {
        tree.parse_reverse(&mut rc, true)
    } else {
        tree.parse(&mut rc, true)
    };
    // spec walk
    let (mut sr, mut sc) = (range, code);
    let mut sp = probs;
    let mut m: usize = 1;
    let mut val: u32 = 0;
    let mut k = 0usize;
    let mut j = 0;
    while j < 3 {
        let (b, r2, c2, p2, sh) = spec_decode_bit(sr, sc, sp[m], data[k]);
        sp[m] = p2;
        sr = r2;
        sc = c2;
        if sh {
            k += 1;
        }
        m = (m << 1) | (b as usize);
        if rev {
            val |= (b as u32) << j;
        } else {
            val = (val << 1) | (b as u32);
        }
        j += 1;
    }
    vassert!(r.is_ok(), "bittree: succeeds with bytes available");
    if let Ok(v) = &r {
        vassert!(*v == val, "bittree: value equals spec walk");
        vassert!(rc.range == sr && rc.code == sc, "bittree: coder state equals spec");
        let q = (t.u8() & 7) as usize;
        vassert!(tree.probs[q] == sp[q], "bittree: probability cells equal spec (any cell)");
        vcover!(rev && *v == 5, "rev5");
        vcover!(!rev && *v == 6, "fwd6");
    }
    forget(r);
    vassert!(rd.pos == k, "bittree: consumes exactly the shifted bytes");
}

//@ harness props=C01 tier=quick unwind=3 mem_gb=2 timeout=120 expect_fail=sanity
//@ bound: vacuity twin - the final assert(false) must be reported
#[cfg_attr(kani, kani::proof)]
pub fn rc_sanity_twin() {
    let mut t = Tape::<16>::new();
    let range = t.u32();
    let code = t.u32();
    let p0 = t.u16();
    assume(range >= TOP);
    assume(p0 >= 31 && p0 <= 2017);
    let mut rd = ArrReader::<1>::new([t.u8()], 1);
    let mut rc = RangeDecoder::from_parts(&mut rd, range, code);
    let mut p = p0;
    let r = rc.decode_bit(&mut p, true);
    forget(r);
    vassert!(false, "sanity");
}

// ---------------------------------------------------------------------------------------
// Accessors used by the symbol-level harnesses (BitTree / LenDecoder fields are private to
// this module) and the bit-oracle stubs.
// ---------------------------------------------------------------------------------------
pub fn bt_addr<const N: usize>(t: &BitTree<N>, i: usize) -> usize {
    &t.probs[i] as *const u16 as usize
}
pub fn bt_get<const N: usize>(t: &BitTree<N>, i: usize) -> u16 {
    t.probs[i]
}
pub fn bt_set<const N: usize>(t: &mut BitTree<N>, i: usize, v: u16) {
    t.probs[i] = v
}
pub fn len_choice_addr(l: &LenDecoder) -> usize {
    &l.choice as *const u16 as usize
}
pub fn len_choice2_addr(l: &LenDecoder) -> usize {
    &l.choice2 as *const u16 as usize
}
pub fn len_low_addr(l: &LenDecoder, ps: usize, m: usize) -> usize {
    bt_addr(&l.low_coder[ps], m)
}
pub fn len_mid_addr(l: &LenDecoder, ps: usize, m: usize) -> usize {
    bt_addr(&l.mid_coder[ps], m)
}
pub fn len_high_addr(l: &LenDecoder, m: usize) -> usize {
    bt_addr(&l.high_coder, m)
}
/// value of a LenDecoder cell by logical name (0 choice, 1 choice2, 2 low, 3 mid, 4 high)
pub fn len_cell(l: &LenDecoder, kind: u8, ps: usize, m: usize) -> u16 {
    match kind {
        0 => l.choice,
        1 => l.choice2,
        2 => l.low_coder[ps].probs[m],
        3 => l.mid_coder[ps].probs[m],
        _ => l.high_coder.probs[m],
    }
}
pub fn len_cell_set(l: &mut LenDecoder, kind: u8, ps: usize, m: usize, v: u16) {
    match kind {
        0 => l.choice = v,
        1 => l.choice2 = v,
        2 => l.low_coder[ps].probs[m] = v,
        3 => l.mid_coder[ps].probs[m] = v,
        _ => l.high_coder.probs[m] = v,
    }
}

/// Bit-oracle stub for `RangeDecoder::decode_bit`: the decision comes from the reader's tape
/// (first byte exposed by fill_buf), and the address of the probability cell that was passed
/// is reported to the reader through `consume(addr)`. An empty fill_buf = input exhausted.
pub fn oracle_decode_bit<'a, R>(rc: &mut RangeDecoder<'a, R>, prob: &mut u16, update: bool) -> io::Result<bool>
where
    R: io::BufRead,
    'a: 'a,
{
    let addr = prob as *mut u16 as usize;
    let b = match rc.stream.fill_buf() {
        Ok(buf) => {
            if buf.is_empty() {
                return Err(io::Error::from(io::ErrorKind::UnexpectedEof));
            }
            buf[0]
        }
        Err(e) => return Err(e),
    };
    // cells are u16 (even addresses): the least significant bit carries the `update` flag
    rc.stream.consume(addr | (update as usize));
    let bit = b & 1 == 1;
    // (the probability value itself is neither read nor written: which cell was used is the
    //  observable; the update arithmetic is decided with real code in rc_decode_bit_step)
    Ok(bit)
}

/// Bit-oracle stub for `RangeDecoder::get_bit` (one direct bit): cell address 0.
pub fn oracle_get_bit<'a, R>(rc: &mut RangeDecoder<'a, R>) -> error::Result<bool>
where
    R: io::BufRead,
    'a: 'a,
{
    let b = match rc.stream.fill_buf() {
        Ok(buf) => {
            if buf.is_empty() {
                return Err(error::Error::IoError(io::Error::from(io::ErrorKind::UnexpectedEof)));
            }
            buf[0]
        }
        Err(e) => return Err(error::Error::IoError(e)),
    };
    rc.stream.consume(0);
    Ok(b & 1 == 1)
}

//@ harness props=C13,C05,C11 tier=quick unwind=10 unwindset=default_read_exact:8 mem_gb=4 timeout=600
//@ bound: RangeDecoder::new + one real decode_bit on 7 symbolic bytes delivered in symbolic fragments of 1..3 bytes vs all at once
#[cfg_attr(kani, kani::proof)]
pub fn rc_new_fragmented() {
    let mut t = Tape::<24>::new();
    let f: [u8; 7] = t.bytes::<7>();
    let cuts: [u8; 8] = t.bytes::<8>();
    let p0 = 0x400u16;
    let mut whole = ArrReader::<7>::new(f, 7);
    let mut frag = FragReader::<7, 8>::new(f, 7, cuts, 3);
    let (ra, ca, ba, oka) = {
        let r = RangeDecoder::new(&mut whole);
        match r {
            Ok(mut rc) => {
                let mut p = p0;
                let b = rc.decode_bit(&mut p, true);
                let bit = match &b {
                    Ok(x) => *x,
                    Err(_) => false,
                };
                let ok = b.is_ok();
                forget(b);
                (rc.range, rc.code, bit, ok)
            }
            Err(e) => {
                forget(e);
                (0, 0, false, false)
            }
        }
    };
    let (rb, cb, bb, okb) = {
        let r = RangeDecoder::new(&mut frag);
        match r {
            Ok(mut rc) => {
                let mut p = p0;
                let b = rc.decode_bit(&mut p, true);
                let bit = match &b {
                    Ok(x) => *x,
                    Err(_) => false,
                };
                let ok = b.is_ok();
                forget(b);
                (rc.range, rc.code, bit, ok)
            }
            Err(e) => {
                forget(e);
                (0, 0, false, false)
            }
        }
    };
    vassert!(oka && okb, "range decoder: starts and decodes under every fragmentation");
    vassert!(ra == rb && ca == cb && ba == bb, "range decoder: state and decision independent of how the reader fragments its data");
    vassert!(whole.pos == frag.pos, "range decoder: same number of bytes consumed under every fragmentation");
    vcover!(whole.pos == 5, "five_bytes_consumed");
}


//@ harness props=C12,C01 tier=quick unwind=7 unwindset=default_read_exact:6 mem_gb=3 timeout=300
//@ bound: RangeDecoder::new on a source holding 6 symbolic bytes whose k-th read call fails once (k symbolic in 0..=1, the fault does not persist): the failure is returned, also when it hits the ignored first byte
#[cfg_attr(kani, kani::proof)]
#[cfg_attr(kani, kani::stub(std::fmt::format, crate::verif_common::stub_format))]
#[cfg_attr(kani, kani::stub(std::io::Error::is_interrupted, crate::verif_common::stub_not_interrupted))]
pub fn rc_new_source_fails() {
    let mut t = Tape::<16>::new();
    let data: [u8; 6] = t.bytes::<6>();
    let k = (t.u8() % 2) as usize;
    let mut rd = FailReader::<6>::new(data, 6, k);
    let r = RangeDecoder::new(&mut rd);
    let ok = r.is_ok();
    forget(r);
    vassert!(!ok, "new: a read failure while loading the five preamble bytes is an error (also on the ignored first byte)");
    vcover!(k == 0, "fault_on_ignored_byte");
    vcover!(k == 1, "fault_on_code_bytes");
}
