// Harnesses over src/encode/dumbencoder.rs: protocol conformance of the literal-only encoder.
// RangeEncoder::encode_bit is replaced by a recording stub (no arithmetic): the encoder's
// sequence of (probability cell, bit) decisions is compared with what the LZMA format
// prescribes for "N literals (+ end marker)" with lc=3 lp=0 pb=2 - the decisions a conforming
// decoder makes when it reads them back (one-symbol conformance of the decoder: C01).
#![allow(dead_code, unused_imports, unused_variables, unused_mut)]

use super::*;
use crate::verif_common::*;
use std::io::Write;

/// Sink for the recording stub: header bytes first, then 11-byte decision records (only the
/// K-th is kept, K universally quantified), then the coder's flush bytes.
pub struct BitLogSink {
    pub hdr: [u8; 16],
    pub hdr_len: usize,
    pub nrec: usize,
    pub k: usize,
    pub rec: [u8; 11],
    pub first: [u8; 11],
    pub tail_len: usize,
    pub hdr_after_rec: bool,
}

impl BitLogSink {
    pub fn new(k: usize) -> Self {
        BitLogSink {
            hdr: [0; 16],
            hdr_len: 0,
            nrec: 0,
            k,
            rec: [0; 11],
            first: [0; 11],
            tail_len: 0,
            hdr_after_rec: false,
        }
    }
}

impl Write for BitLogSink {
    fn write(&mut self, data: &[u8]) -> io::Result<usize> {
        if data.len() == 11 {
            if self.nrec == 0 {
                self.first.copy_from_slice(data);
            }
            if self.nrec == self.k {
                self.rec.copy_from_slice(data);
            }
            self.nrec += 1;
        } else if self.nrec == 0 {
            let n = data.len();
            if self.hdr_len + n <= 16 {
                self.hdr[self.hdr_len..self.hdr_len + n].copy_from_slice(data);
            }
            self.hdr_len += n;
        } else {
            self.tail_len += data.len();
        }
        Ok(data.len())
    }
    fn write_all(&mut self, data: &[u8]) -> io::Result<()> {
        match self.write(data) {
            Ok(_) => Ok(()),
            Err(e) => Err(e),
        }
    }
    fn flush(&mut self) -> io::Result<()> {
        Ok(())
    }
}

fn rec_addr(r: &[u8; 11]) -> usize {
    usize::from_le_bytes([r[0], r[1], r[2], r[3], r[4], r[5], r[6], r[7]])
}
fn rec_val(r: &[u8; 11]) -> u16 {
    u16::from_le_bytes([r[8], r[9]])
}

/// OPT: 0 = WriteToHeader(None) (end marker), 1 = WriteToHeader(Some(symbolic)), 2 = Skip
fn encoder_protocol<const N: usize, const OPT: usize>() {
    let mut t = Tape::<32>::new();
    let data: [u8; N] = t.bytes::<N>();
    let k = (t.u8() as usize) % (N * 9 + 42);
    let size_v = t.u64();
    let opts = crate::compress::Options {
        unpacked_size: match OPT {
            0 => UnpackedSize::WriteToHeader(None),
            1 => UnpackedSize::WriteToHeader(Some(size_v)),
            _ => UnpackedSize::SkipWritingToHeader,
        },
    };
    let mut sink = BitLogSink::new(k);
    let ok = {
        let r = Encoder::from_stream(&mut sink, &opts);
        match r {
            Ok(enc) => {
                // cell offsets relative to is_match[0] (the encoder is moved into process();
                // offsets inside the struct are what is stable)
                let rd = ArrReader::<N>::new(data, N);
                let r2 = enc.process(rd);
                let ok = r2.is_ok();
                forget(r2);
                ok
            }
            Err(e) => {
                forget(e);
                false
            }
        }
    };
    vassert!(ok, "encoder: succeeds on a healthy sink");
    // ---- header
    vassert!(sink.hdr[0] == 0x5D, "encoder: properties byte lc=3 lp=0 pb=2");
    vassert!(sink.hdr[1] == 0 && sink.hdr[2] == 0 && sink.hdr[3] == 0x80 && sink.hdr[4] == 0, "encoder: dictionary size 0x0080_0000 little-endian");
    match OPT {
        0 => {
            vassert!(sink.hdr_len == 13, "encoder: 13-byte header");
            let mut i = 5;
            while i < 13 {
                vassert!(sink.hdr[i] == 0xFF, "encoder: unknown size is written as all-ones");
                i += 1;
            }
        }
        1 => {
            vassert!(sink.hdr_len == 13, "encoder: 13-byte header");
            let b = size_v.to_le_bytes();
            let mut i = 0;
            while i < 8 {
                vassert!(sink.hdr[5 + i] == b[i], "encoder: given size little-endian in the header");
                i += 1;
            }
        }
        _ => {
            vassert!(sink.hdr_len == 5, "encoder: 5-byte header when the size is not written");
        }
    }
    // ---- transcript
    let total = N * 9 + if OPT == 0 { 42 } else { 0 };
    vassert!(sink.nrec == total, "encoder: 9 decisions per literal (+ 42 for the end marker)");
    vassert!(sink.tail_len == 5, "encoder: flushes five bytes after the last decision");
    // layout offsets from a reference encoder value
    let mut scratch = RecSink::<16>::new();
    let refenc = Encoder {
        rangecoder: rangecoder::RangeEncoder::new(&mut scratch),
        literal_probs: [[0x400; 0x300]; 8],
        is_match: [0x400; 4],
        unpacked_size: opts.unpacked_size,
    };
    let ref_base = &refenc.is_match[0] as *const u16 as usize;
    let first_cell: usize = if N > 0 { 0 } else { 1 }; // empty input: the marker uses is_match[(0+1)&3]
    if total > 0 && k < total {
        let base = rec_addr(&sink.first).wrapping_sub(2 * first_cell);
        let addr = rec_addr(&sink.rec);
        let val = rec_val(&sink.rec);
        let bit = sink.rec[10] == 1;
        if k < N * 9 {
            let j = k / 9;
            let pos = k % 9;
            let byte = data[j];
            let prev = if j == 0 { 0u8 } else { data[j - 1] };
            if pos == 0 {
                let exp = (&refenc.is_match[j & 3] as *const u16 as usize).wrapping_sub(ref_base);
                vassert!(addr.wrapping_sub(base) == exp, "encoder: literal flag coded on is_match[pos_state = i & 3] (state 0)");
                vassert!(!bit, "encoder: literal flag is 0");
            } else {
                // bit (pos-1) of the byte, MSB first, cell = 1-prefixed bits so far
                let nb = pos - 1;
                let sym = (1usize << nb) | ((byte as usize) >> (8 - nb));
                let exp = (&refenc.literal_probs[(prev >> 5) as usize][sym] as *const u16 as usize).wrapping_sub(ref_base);
                vassert!(addr.wrapping_sub(base) == exp, "encoder: literal bit coded on probs[prev >> 5][1-prefixed bits so far]");
                vassert!(bit == (((byte >> (7 - nb)) & 1) == 1), "encoder: literal bits MSB first");
            }
        } else {
            // end marker: match(1), new distance(0), len = 0 (choice 0 + 3 zero bits),
            // pos slot 63 (6 ones), 26 direct ones + 4 align ones
            let m = k - N * 9;
            if m == 0 {
                let ps = if N == 0 { 1 } else { N & 3 };
                let exp = (&refenc.is_match[ps] as *const u16 as usize).wrapping_sub(ref_base);
                vassert!(addr.wrapping_sub(base) == exp, "encoder: marker's match flag on is_match[len & 3]");
                vassert!(bit, "encoder: marker starts with match = 1");
            } else {
                let exp_bit = m >= 6;
                vassert!(bit == exp_bit, "encoder: marker bits: rep 0, len 0000, then 36 ones (slot 63, distance 0xFFFF_FFFF)");
                vassert!(val == 0x400, "encoder: marker decisions other than the match flag use fresh (0x400) cells");
            }
        }
    }
    vcover!(k == total - 1 && total > 0, "last_decision");
    vcover!(true, "end_reached");
    forget(refenc);
}

//@ harness props=C04 tier=quick unwind=12 unwindset=encode_literal:10,finish:32,write_low:6 mem_gb=10 timeout=1500 native=no
//@ bound: dumb encoder protocol: 5 symbolic input bytes, end-marker option; every decision (cell by address, bit) checked at a universally quantified position
#[cfg_attr(kani, kani::proof)]
#[cfg_attr(kani, kani::stub(std::fmt::format, crate::verif_common::stub_format))]
#[cfg_attr(kani, kani::stub(std::io::Error::is_interrupted, crate::verif_common::stub_not_interrupted))]
#[cfg_attr(kani, kani::stub(crate::encode::rangecoder::RangeEncoder::encode_bit, crate::encode::rangecoder::verif_h::recording_encode_bit))]
pub fn enc_protocol_n5_marker() {
    encoder_protocol::<5, 0>()
}

//@ harness props=C04 tier=quick unwind=12 unwindset=encode_literal:10,finish:32,write_low:6 mem_gb=8 timeout=1500 native=no
//@ bound: dumb encoder protocol: 2 symbolic input bytes, size written to the header (symbolic value)
#[cfg_attr(kani, kani::proof)]
#[cfg_attr(kani, kani::stub(std::fmt::format, crate::verif_common::stub_format))]
#[cfg_attr(kani, kani::stub(std::io::Error::is_interrupted, crate::verif_common::stub_not_interrupted))]
#[cfg_attr(kani, kani::stub(crate::encode::rangecoder::RangeEncoder::encode_bit, crate::encode::rangecoder::verif_h::recording_encode_bit))]
pub fn enc_protocol_n2_size() {
    encoder_protocol::<2, 1>()
}

//@ harness props=C04 tier=quick unwind=12 unwindset=encode_literal:10,finish:32,write_low:6 mem_gb=8 timeout=1500 native=no
//@ bound: dumb encoder protocol: 2 symbolic input bytes, size not written (5-byte header)
#[cfg_attr(kani, kani::proof)]
#[cfg_attr(kani, kani::stub(std::fmt::format, crate::verif_common::stub_format))]
#[cfg_attr(kani, kani::stub(std::io::Error::is_interrupted, crate::verif_common::stub_not_interrupted))]
#[cfg_attr(kani, kani::stub(crate::encode::rangecoder::RangeEncoder::encode_bit, crate::encode::rangecoder::verif_h::recording_encode_bit))]
pub fn enc_protocol_n2_skip() {
    encoder_protocol::<2, 2>()
}

//@ harness props=C04 tier=quick unwind=12 unwindset=encode_literal:10,finish:32,write_low:6 mem_gb=8 timeout=1500 native=no
//@ bound: dumb encoder protocol: empty input, end-marker option
#[cfg_attr(kani, kani::proof)]
#[cfg_attr(kani, kani::stub(std::fmt::format, crate::verif_common::stub_format))]
#[cfg_attr(kani, kani::stub(std::io::Error::is_interrupted, crate::verif_common::stub_not_interrupted))]
#[cfg_attr(kani, kani::stub(crate::encode::rangecoder::RangeEncoder::encode_bit, crate::encode::rangecoder::verif_h::recording_encode_bit))]
pub fn enc_protocol_n0_marker() {
    encoder_protocol::<0, 0>()
}

//@ harness props=C04,C12 tier=quick unwind=16 unwindset=RecSink.*write_all:16 mem_gb=4 timeout=600
//@ bound: Encoder::from_stream into a sink accepting at most 3 bytes per write call, the three header options (symbolic size): the whole header reaches the sink
#[cfg_attr(kani, kani::proof)]
#[cfg_attr(kani, kani::stub(std::fmt::format, crate::verif_common::stub_format))]
#[cfg_attr(kani, kani::stub(std::io::Error::is_interrupted, crate::verif_common::stub_not_interrupted))]
pub fn enc_header_short_sink() {
    let mut t = Tape::<16>::new();
    let size_v = t.u64();
    let opt = t.u8() % 3;
    let opts = crate::compress::Options {
        unpacked_size: match opt {
            0 => UnpackedSize::WriteToHeader(None),
            1 => UnpackedSize::WriteToHeader(Some(size_v)),
            _ => UnpackedSize::SkipWritingToHeader,
        },
    };
    let mut sink = RecSink::<16>::new();
    sink.short = 3;
    let ok = {
        let r = Encoder::from_stream(&mut sink, &opts);
        let ok = r.is_ok();
        forget(r);
        ok
    };
    vassert!(ok, "encoder header: succeeds on a sink that accepts partial writes");
    vassert!(sink.len == if opt == 2 { 5 } else { 13 }, "encoder header: every header byte reaches a sink that accepts only part of each write");
    vassert!(sink.buf[0] == 0x5D && sink.buf[3] == 0x80, "encoder header: properties and dictionary size");
    if opt == 1 {
        let b = size_v.to_le_bytes();
        let q = (t.u8() % 8) as usize;
        vassert!(sink.buf[5 + q] == b[q], "encoder header: size field complete and in order");
    }
    if opt == 0 {
        let q = (t.u8() % 8) as usize;
        vassert!(sink.buf[5 + q] == 0xFF, "encoder header: all-ones size field complete");
    }
    vcover!(opt == 1, "size_written");
}


//@ harness props=C12,C04 tier=quick unwind=12 unwindset=encode_literal:10,finish:32,write_low:6 mem_gb=8 timeout=900 native=no
//@ bound: Encoder::process on a source holding 2 symbolic bytes whose k-th read call fails (k symbolic in 0..=2), decisions recorded instead of encoded: the failure is returned, never taken for the end of the input
#[cfg_attr(kani, kani::proof)]
#[cfg_attr(kani, kani::stub(std::fmt::format, crate::verif_common::stub_format))]
#[cfg_attr(kani, kani::stub(std::io::Error::is_interrupted, crate::verif_common::stub_not_interrupted))]
#[cfg_attr(kani, kani::stub(crate::encode::rangecoder::RangeEncoder::encode_bit, crate::encode::rangecoder::verif_h::recording_encode_bit))]
pub fn enc_process_source_fails() {
    let mut t = Tape::<16>::new();
    let data: [u8; 2] = t.bytes::<2>();
    let k = (t.u8() % 3) as usize;
    let opts = crate::compress::Options { unpacked_size: UnpackedSize::WriteToHeader(None) };
    let mut sink = BitLogSink::new(0);
    let r = Encoder::from_stream(&mut sink, &opts);
    match r {
        Ok(enc) => {
            let rd = FailReader::<2>::new(data, 2, k);
            let r2 = enc.process(rd);
            let ok = r2.is_ok();
            forget(r2);
            vassert!(!ok, "encoder: a read failure of the source is reported as an error (the stream is not ended as if the input were complete)");
            vassert!(sink.nrec == k * 9, "encoder: nothing is encoded after the failing read (no end marker for a failed source)");
            vcover!(k == 2, "fails_at_end_probe");
        }
        Err(e) => {
            forget(e);
            vassert!(false, "encoder: header goes to a healthy sink");
        }
    }
}
