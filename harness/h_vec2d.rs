// Accessors for src/util/vec2d.rs (child module: sees the private fields).
#![allow(dead_code, unused_imports)]
use super::*;

/// Build a Vec2D<u16> from a boxed slice without any fill loop.
pub fn mk_vec2d(data: Box<[u16]>, cols: usize) -> Vec2D<u16> {
    Vec2D { data, cols }
}
pub fn vec2d_len(v: &Vec2D<u16>) -> usize {
    v.data.len()
}
pub fn vec2d_cols(v: &Vec2D<u16>) -> usize {
    v.cols
}
pub fn vec2d_cell(v: &Vec2D<u16>, i: usize) -> u16 {
    v.data[i]
}
pub fn vec2d_set(v: &mut Vec2D<u16>, i: usize, x: u16) {
    v.data[i] = x
}
pub fn vec2d_addr(v: &Vec2D<u16>, i: usize) -> usize {
    &v.data[i] as *const u16 as usize
}

/// Observer stub for `Vec2D::fill`: records the fill value in the first and the last cell
/// instead of looping over the table (768+ iterations of IterMut are measured to cost minutes
/// and > 10 GB under CBMC). What `fill` itself does is decided on a small grid in
/// `vec2d_fill_unit`.
pub fn fill_observer<T: Clone>(v: &mut Vec2D<T>, value: T) {
    let n = v.data.len();
    if n > 0 {
        v.data[0] = value.clone();
        v.data[n - 1] = value;
    }
}

use crate::verif_common::*;

//@ harness props=C14 tier=quick unwind=10 mem_gb=3 timeout=300
//@ bound: Vec2D::init(v, (2,3)) then a symbolic write then fill(w): every cell equals w afterwards (quantified cell), dimensions kept
#[cfg_attr(kani, kani::proof)]
#[cfg_attr(kani, kani::stub(std::fmt::format, crate::verif_common::stub_format))]
pub fn vec2d_fill_unit() {
    let mut t = Tape::<16>::new();
    let v0 = t.u16();
    let w = t.u16();
    let dirty = t.u16();
    let i = (t.u8() % 6) as usize;
    let j = (t.u8() % 6) as usize;
    let mut g = Vec2D::init(v0, (2, 3));
    vassert!(g.data.len() == 6 && g.cols == 3, "vec2d: init allocates rows*cols cells");
    vassert!(g.data[j] == v0, "vec2d: init fills every cell with the given value");
    g.data[i] = dirty;
    g.fill(w);
    vassert!(g.data.len() == 6 && g.cols == 3, "vec2d: fill keeps the dimensions");
    vassert!(g.data[j] == w, "vec2d: fill overwrites every cell");
    vassert!(g[1][2] == w && g[j / 3][j % 3] == w, "vec2d: row indexing addresses row*cols + col");
    vcover!(i == j, "dirty_cell_inspected");
    forget(g);
}
