// Accessors for src/util/vec2d.rs (child module: sees the private fields).
#![allow(dead_code, unused_imports)]
use super::*;

/// Build a Vec2D<u16> from a boxed slice without any fill loop.
pub fn mk_vec2d(data: Box<[u16]>, cols: usize) -> Vec2D<u16> {
    Vec2D { data, cols }
}
pub fn vec2d_len(v: &Vec2D<u16>) -> usize {
    v.data.len()
}
pub fn vec2d_cols(v: &Vec2D<u16>) -> usize {
    v.cols
}
pub fn vec2d_cell(v: &Vec2D<u16>, i: usize) -> u16 {
    v.data[i]
}
pub fn vec2d_set(v: &mut Vec2D<u16>, i: usize, x: u16) {
    v.data[i] = x
}
pub fn vec2d_addr(v: &Vec2D<u16>, i: usize) -> usize {
    &v.data[i] as *const u16 as usize
}
