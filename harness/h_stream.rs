// Harnesses over src/decode/stream.rs (child module: sees Stream's private fields).
#![allow(dead_code, unused_imports, unused_variables, unused_mut)]

use super::*;
use crate::decode::lzma::verif_h::{light_state, script, set_script, K_BAD, K_LIT, K_MARKER};
use crate::decode::lzma::LzmaProperties;
use crate::verif_common::*;

/// Stand-ins for DecoderState::new in the Stream harnesses (the 768-cell fill loop is decided
/// in new_state_lclp0): same value, literal table by array-repeat, plus the abstract-symbol
/// script where the harness decodes abstract symbols.
pub fn new_scripted_lit(props: LzmaProperties, size: Option<u64>) -> DecoderState {
    let mut d = light_state::<768>(props, size);
    set_script(&mut d, [script(2, K_LIT), script(3, K_LIT), script(1, K_LIT), script(20, K_LIT)]);
    d
}
pub fn new_scripted_bad(props: LzmaProperties, size: Option<u64>) -> DecoderState {
    let mut d = light_state::<768>(props, size);
    set_script(&mut d, [script(2, K_LIT), script(3, K_BAD), script(1, K_LIT), script(20, K_LIT)]);
    d
}

fn opts(allow_incomplete: bool, memlimit: Option<usize>) -> Options {
    Options {
        unpacked_size: crate::decompress::UnpackedSize::ReadFromHeader,
        memlimit,
        allow_incomplete,
    }
}

fn is_failed<W: Write>(s: &Stream<W>) -> bool {
    s.state.is_none()
}

/// C16(a): a fatal header (props byte >= 225) latches the stream: later writes return Ok(0),
/// the sink is gone, flush is harmless, finish is Err; nothing panics.
fn latch_after_bad_header<const N1: usize, const N2: usize>() {
    let mut t = Tape::<48>::new();
    let mut d1: [u8; N1] = t.bytes::<N1>();
    let d2: [u8; N2] = t.bytes::<N2>();
    d1[0] = 0xE1; // 225: invalid properties (concrete: the header layout must stay concrete)
    let mut s = Stream::new_with_options(&opts(false, None), CountSink::new());
    let r1 = s.write(&d1[..]);
    vassert!(r1.is_err(), "stream: an invalid properties byte is a write error");
    forget(r1);
    vassert!(is_failed(&s), "stream: the failed stream holds no sink any more");
    let r2 = s.write(&d2[..]);
    match &r2 {
        Ok(n) => {
            vassert!(*n == 0, "stream: writes after a failure consume nothing");
        }
        Err(_) => {}
    }
    forget(r2);
    let r3 = s.flush();
    vassert!(r3.is_ok(), "stream: flush after a failure does not panic or fail");
    forget(r3);
    vassert!(s.get_output().is_none(), "stream: no output handle after a failure");
    let r4 = s.finish();
    vassert!(r4.is_err(), "stream: finish after a failed write is an error");
    forget(r4);
    vcover!(true, "end_reached");
}

/// Build header (13 bytes, lc=lp=pb=0, dict 0x1000, size field SZ or all-ones) + 5 preamble
/// bytes + payload bytes from the tape.
fn mk_stream_bytes<const N: usize>(t: &mut Tape<64>, size: Option<u64>) -> [u8; N] {
    let mut f = [0u8; N];
    f[0] = 0;
    f[1] = 0;
    f[2] = 0x10;
    f[3] = 0;
    f[4] = 0;
    let sz = match size {
        Some(n) => n,
        None => u64::MAX,
    }
    .to_le_bytes();
    let mut i = 0;
    while i < 8 {
        f[5 + i] = sz[i];
        i += 1;
    }
    let mut j = 13;
    while j < N {
        f[j] = t.u8();
        j += 1;
    }
    f
}

fn data_state<W: Write>(s: &Stream<W>) -> Option<&RunState<W>> {
    match &s.state {
        Some(State::Data(d)) => Some(&**d),
        _ => None,
    }
}


/// `Write::write_all` semantics, bounded: call write until the piece is consumed (at most three
/// calls: a piece may be split by header staging); Ok(total consumed) or Err.
fn write_piece<W: Write>(s: &mut Stream<W>, data: &[u8]) -> Result<usize, ()> {
    let mut off = 0usize;
    let mut calls = 0;
    while calls < 3 {
        if off >= data.len() {
            return Ok(off);
        }
        let r = s.write(&data[off..]);
        match &r {
            Ok(n) => {
                let n = *n;
                forget(r);
                if n == 0 {
                    return Ok(off);
                }
                off += n;
            }
            Err(_) => {
                forget(r);
                return Err(());
            }
        }
        calls += 1;
    }
    Ok(off)
}

/// C05-H1 + C16(c) + C15: a 24-byte stream (13 header, 5 preamble, abstract literal symbols of
/// 2, 3 and 1 bytes) with declared size 3, written in three pieces cut at C1 < C2 (concrete),
/// then one more write of 2 bytes after the size is reached, then finish.
fn staged_stream<const C1: usize, const C2: usize>() {
    let mut t = Tape::<64>::new();
    let f: [u8; 24] = mk_stream_bytes::<24>(&mut t, Some(3));
    let extra = [t.u8(), t.u8()];
    let mut s = Stream::new_with_options(&opts(false, None), CountSink::new());
    let n1 = write_piece(&mut s, &f[..C1]);
    let n2 = write_piece(&mut s, &f[C1..C2]);
    let n3 = write_piece(&mut s, &f[C2..]);
    vassert!(n1 == Ok(C1) && n2 == Ok(C2 - C1) && n3 == Ok(24 - C2), "stream: every piece of a well-formed stream is consumed (write_all semantics), wherever the cuts fall");
    // after all 24 bytes: header parsed, preamble loaded, three symbols committed
    let ok_state = match data_state(&s) {
        Some(rs) => {
            let (er, ec) = {
                let c0 = u32::from_be_bytes([f[14], f[15], f[16], f[17]]);
                let (a, b) = crate::decode::lzma::verif_h::abs_fold(0xFFFF_FFFF, c0, f[18], f[19]);
                let (a, b) = crate::decode::lzma::verif_h::abs_fold(a, b, f[20], f[22]);
                crate::decode::lzma::verif_h::abs_fold(a, b, f[23], f[23])
            };
            vassert!(rs.range == er && rs.code == ec, "stream: coder state equals the one-shot decoder's after the same bytes (preamble byte 0 ignored, code big-endian)");
            vassert!(crate::decode::lzbuffer::verif_h::circ_total(&rs.output) == 3, "stream: three symbols decoded");
            vassert!(crate::decode::lzbuffer::verif_h::circ_dict_size(&rs.output) == 0x1000, "stream: dictionary size from the header");
            true
        }
        None => false,
    };
    vassert!(ok_state, "stream: header parsed and data state entered once 18 bytes have arrived");
    vassert!(s.tmp.position() == 0, "stream: no staged bytes left behind");
    // size reached: further writes consume nothing
    let r4 = s.write(&extra[..]);
    match &r4 {
        Ok(n) => {
            vassert!(*n == 0, "stream: once the declared size is reached further writes consume nothing");
        }
        Err(_) => {
            vassert!(false, "stream: a write after the declared size is not an error");
        }
    }
    forget(r4);
    let fin = s.finish();
    match &fin {
        Ok(sink) => {
            vassert!(sink.bytes == 3, "stream: finish delivers exactly the declared number of bytes");
            vassert!(sink.b0 == f[18] ^ f[19] && sink.b1 == f[20] ^ f[22] && sink.b2 == 0, "stream: output bytes equal the one-shot decoder's");
            vassert!(sink.flushes >= 1, "stream: finish flushes the sink");
            vcover!(true, "finish_ok");
        }
        Err(_) => {
            vassert!(false, "stream: finish of a complete well-formed stream succeeds");
        }
    }
    forget(fin);
    vcover!(true, "end_reached");
}

/// C16(b): an error while decoding data latches the stream.
fn latch_after_data_error<const C1: usize>() {
    let mut t = Tape::<64>::new();
    let f: [u8; 40] = mk_stream_bytes::<40>(&mut t, None);
    let extra = [t.u8(), t.u8(), t.u8()];
    let mut s = Stream::new_with_options(&opts(false, None), CountSink::new());
    // script: literal(2 bytes) then a corrupt symbol (3 bytes): 22 payload bytes are plenty
    let e1 = write_piece(&mut s, &f[..C1]).is_err();
    let e2 = write_piece(&mut s, &f[C1..]).is_err();
    vassert!(e1 || e2, "stream: a corrupt symbol is reported by the write that decodes it");
    vassert!(is_failed(&s), "stream: the stream is failed after a decoding error");
    let r3 = s.write(&extra[..]);
    match &r3 {
        Ok(n) => {
            vassert!(*n == 0, "stream: writes after a decoding error consume nothing");
        }
        Err(_) => {}
    }
    forget(r3);
    let fin = s.finish();
    vassert!(fin.is_err(), "stream: finish after a decoding error is an error");
    forget(fin);
    vcover!(true, "end_reached");
}

/// C15: with allow_incomplete, finish after header + preamble + 1 complete symbol + part of the
/// next succeeds and returns the prefix; without it, it is an error. C10: memlimit plumbing.
fn finish_incomplete<const ALLOW: bool, const TOTAL: usize>() {
    let mut t = Tape::<64>::new();
    let f: [u8; TOTAL] = mk_stream_bytes::<TOTAL>(&mut t, None);
    let ml = t.usize();
    let ml_some = t.bool();
    let o = opts(ALLOW, if ml_some { Some(ml) } else { None });
    let mut s = Stream::new_with_options(&o, CountSink::new());
    let w1 = write_piece(&mut s, &f[..]);
    let n1 = match w1 {
        Ok(n) => n,
        Err(()) => usize::MAX,
    };
    if TOTAL >= 18 {
        if ml_some && ml == 0 && TOTAL >= 20 {
            // the first literal needs one byte of window: memlimit 0 must refuse it
            vassert!(n1 == usize::MAX, "stream: memlimit is honoured by the streaming decoder");
        } else {
            vassert!(n1 == TOTAL, "stream: a prefix of a well-formed stream is consumed in full");
            match data_state(&s) {
                Some(rs) => {
                    vassert!(crate::decode::lzbuffer::verif_h::circ_memlimit(&rs.output) == if ml_some { ml } else { usize::MAX }, "stream: options.memlimit reaches the window (None = unlimited)");
                    let done = if TOTAL >= 20 { 1 } else { 0 } + if TOTAL >= 23 { 1 } else { 0 } + if TOTAL >= 24 { 1 } else { 0 };
                    vassert!(crate::decode::lzbuffer::verif_h::circ_total(&rs.output) == done, "stream: every symbol that is complete in the input so far has been decoded");
                }
                None => {
                    vassert!(false, "stream: data state after 18 bytes");
                }
            }
            let fin = s.finish();
            match &fin {
                Ok(sink) => {
                    vassert!(ALLOW, "stream: finishing a truncated stream needs allow_incomplete (no end marker seen, bytes pending)");
                    let done = if TOTAL >= 20 { 1 } else { 0 } + if TOTAL >= 23 { 1 } else { 0 } + if TOTAL >= 24 { 1 } else { 0 };
                    vassert!(sink.bytes == done, "stream: allow_incomplete returns the decoded prefix");
                    vcover!(true, "incomplete_ok");
                }
                Err(_) => {
                    vassert!(!ALLOW, "stream: with allow_incomplete, finish after header+preamble succeeds");
                    vcover!(true, "incomplete_err");
                }
            }
            forget(fin);
        }
    }
    vcover!(true, "end_reached");
}

//@ harness props=C16,C07 tier=quick unwind=10 unwindset=default_read_exact:4,process_mode:7,mk_stream_bytes:42,write_piece:4,extend_with:3,CountSink.*4take:6 mem_gb=8 timeout=900
//@ bound: Stream: write(20 bytes with props byte 225) then write(4 symbolic bytes), flush, get_output, finish
#[cfg_attr(kani, kani::proof)]
#[cfg_attr(kani, kani::stub(std::fmt::format, crate::verif_common::stub_format))]
#[cfg_attr(kani, kani::stub(std::io::Error::is_interrupted, crate::verif_common::stub_not_interrupted))]
pub fn stream_latch_bad_header_20_4() {
    latch_after_bad_header::<20, 4>()
}

//@ harness props=C16,C07 tier=quick unwind=10 unwindset=default_read_exact:4,process_mode:7,mk_stream_bytes:42,write_piece:4,extend_with:3,CountSink.*4take:6 mem_gb=8 timeout=900
//@ bound: Stream: write(1 byte = 225) then write(17 symbolic bytes), flush, get_output, finish
#[cfg_attr(kani, kani::proof)]
#[cfg_attr(kani, kani::stub(std::fmt::format, crate::verif_common::stub_format))]
#[cfg_attr(kani, kani::stub(std::io::Error::is_interrupted, crate::verif_common::stub_not_interrupted))]
pub fn stream_latch_bad_header_1_17() {
    latch_after_bad_header::<1, 17>()
}

//@ harness props=C05,C16,C15,C07 tier=thorough optional=yes unwind=10 unwindset=default_read_exact:4,process_mode:7,mk_stream_bytes:42,write_piece:4,extend_with:3,CountSink.*4take:6 mem_gb=8 timeout=900 native=no
//@ bound: Stream: 24-byte stream (size 3, abstract symbols 2/3/1 bytes) written as pieces [0,18) [18,24) [24,24), then a 2-byte write after the size is reached, then finish; payload/preamble symbolic
#[cfg_attr(kani, kani::proof)]
#[cfg_attr(kani, kani::stub(std::fmt::format, crate::verif_common::stub_format))]
#[cfg_attr(kani, kani::stub(std::io::Error::is_interrupted, crate::verif_common::stub_not_interrupted))]
#[cfg_attr(kani, kani::stub(crate::decode::lzma::DecoderState::process_next_inner, crate::decode::lzma::verif_h::abs_symbol))]
#[cfg_attr(kani, kani::stub(crate::decode::lzbuffer::LzCircularBuffer::from_stream, crate::decode::lzbuffer::verif_h::circ_from_stream_with_capacity))]
#[cfg_attr(kani, kani::stub(crate::decode::lzma::DecoderState::new, crate::decode::stream::verif_h::new_scripted_lit))]
pub fn stream_staged_18_24() {
    staged_stream::<18, 24>()
}

//@ harness props=C05,C16,C15,C07 tier=thorough optional=yes unwind=10 unwindset=default_read_exact:4,process_mode:7,mk_stream_bytes:42,write_piece:4,extend_with:3,CountSink.*4take:6 mem_gb=8 timeout=900 native=no
//@ bound: Stream: 24-byte stream (size 3, abstract symbols 2/3/1 bytes) written as pieces [0,1) [1,18) [18,24), then a 2-byte write after the size is reached, then finish; payload/preamble symbolic
#[cfg_attr(kani, kani::proof)]
#[cfg_attr(kani, kani::stub(std::fmt::format, crate::verif_common::stub_format))]
#[cfg_attr(kani, kani::stub(std::io::Error::is_interrupted, crate::verif_common::stub_not_interrupted))]
#[cfg_attr(kani, kani::stub(crate::decode::lzma::DecoderState::process_next_inner, crate::decode::lzma::verif_h::abs_symbol))]
#[cfg_attr(kani, kani::stub(crate::decode::lzbuffer::LzCircularBuffer::from_stream, crate::decode::lzbuffer::verif_h::circ_from_stream_with_capacity))]
#[cfg_attr(kani, kani::stub(crate::decode::lzma::DecoderState::new, crate::decode::stream::verif_h::new_scripted_lit))]
pub fn stream_staged_1_18() {
    staged_stream::<1, 18>()
}

//@ harness props=C05,C16,C15,C07 tier=thorough optional=yes unwind=10 unwindset=default_read_exact:4,process_mode:7,mk_stream_bytes:42,write_piece:4,extend_with:3,CountSink.*4take:6 mem_gb=8 timeout=900 native=no
//@ bound: Stream: 24-byte stream (size 3, abstract symbols 2/3/1 bytes) written as pieces [0,4) [4,13) [13,24), then a 2-byte write after the size is reached, then finish; payload/preamble symbolic
#[cfg_attr(kani, kani::proof)]
#[cfg_attr(kani, kani::stub(std::fmt::format, crate::verif_common::stub_format))]
#[cfg_attr(kani, kani::stub(std::io::Error::is_interrupted, crate::verif_common::stub_not_interrupted))]
#[cfg_attr(kani, kani::stub(crate::decode::lzma::DecoderState::process_next_inner, crate::decode::lzma::verif_h::abs_symbol))]
#[cfg_attr(kani, kani::stub(crate::decode::lzbuffer::LzCircularBuffer::from_stream, crate::decode::lzbuffer::verif_h::circ_from_stream_with_capacity))]
#[cfg_attr(kani, kani::stub(crate::decode::lzma::DecoderState::new, crate::decode::stream::verif_h::new_scripted_lit))]
pub fn stream_staged_4_13() {
    staged_stream::<4, 13>()
}

//@ harness props=C05,C16,C15,C07 tier=thorough optional=yes unwind=10 unwindset=default_read_exact:4,process_mode:7,mk_stream_bytes:42,write_piece:4,extend_with:3,CountSink.*4take:6 mem_gb=8 timeout=900 native=no
//@ bound: Stream: 24-byte stream (size 3, abstract symbols 2/3/1 bytes) written as pieces [0,5) [5,17) [17,24), then a 2-byte write after the size is reached, then finish; payload/preamble symbolic
#[cfg_attr(kani, kani::proof)]
#[cfg_attr(kani, kani::stub(std::fmt::format, crate::verif_common::stub_format))]
#[cfg_attr(kani, kani::stub(std::io::Error::is_interrupted, crate::verif_common::stub_not_interrupted))]
#[cfg_attr(kani, kani::stub(crate::decode::lzma::DecoderState::process_next_inner, crate::decode::lzma::verif_h::abs_symbol))]
#[cfg_attr(kani, kani::stub(crate::decode::lzbuffer::LzCircularBuffer::from_stream, crate::decode::lzbuffer::verif_h::circ_from_stream_with_capacity))]
#[cfg_attr(kani, kani::stub(crate::decode::lzma::DecoderState::new, crate::decode::stream::verif_h::new_scripted_lit))]
pub fn stream_staged_5_17() {
    staged_stream::<5, 17>()
}

//@ harness props=C05,C16,C15,C07 tier=thorough optional=yes unwind=10 unwindset=default_read_exact:4,process_mode:7,mk_stream_bytes:42,write_piece:4,extend_with:3,CountSink.*4take:6 mem_gb=8 timeout=900 native=no
//@ bound: Stream: 24-byte stream (size 3, abstract symbols 2/3/1 bytes) written as pieces [0,12) [12,19) [19,24), then a 2-byte write after the size is reached, then finish; payload/preamble symbolic
#[cfg_attr(kani, kani::proof)]
#[cfg_attr(kani, kani::stub(std::fmt::format, crate::verif_common::stub_format))]
#[cfg_attr(kani, kani::stub(std::io::Error::is_interrupted, crate::verif_common::stub_not_interrupted))]
#[cfg_attr(kani, kani::stub(crate::decode::lzma::DecoderState::process_next_inner, crate::decode::lzma::verif_h::abs_symbol))]
#[cfg_attr(kani, kani::stub(crate::decode::lzbuffer::LzCircularBuffer::from_stream, crate::decode::lzbuffer::verif_h::circ_from_stream_with_capacity))]
#[cfg_attr(kani, kani::stub(crate::decode::lzma::DecoderState::new, crate::decode::stream::verif_h::new_scripted_lit))]
pub fn stream_staged_12_19() {
    staged_stream::<12, 19>()
}

//@ harness props=C05,C16,C15,C07 tier=thorough optional=yes unwind=10 unwindset=default_read_exact:4,process_mode:7,mk_stream_bytes:42,write_piece:4,extend_with:3,CountSink.*4take:6 mem_gb=8 timeout=900 native=no
//@ bound: Stream: 24-byte stream (size 3, abstract symbols 2/3/1 bytes) written as pieces [0,13) [13,21) [21,24), then a 2-byte write after the size is reached, then finish; payload/preamble symbolic
#[cfg_attr(kani, kani::proof)]
#[cfg_attr(kani, kani::stub(std::fmt::format, crate::verif_common::stub_format))]
#[cfg_attr(kani, kani::stub(std::io::Error::is_interrupted, crate::verif_common::stub_not_interrupted))]
#[cfg_attr(kani, kani::stub(crate::decode::lzma::DecoderState::process_next_inner, crate::decode::lzma::verif_h::abs_symbol))]
#[cfg_attr(kani, kani::stub(crate::decode::lzbuffer::LzCircularBuffer::from_stream, crate::decode::lzbuffer::verif_h::circ_from_stream_with_capacity))]
#[cfg_attr(kani, kani::stub(crate::decode::lzma::DecoderState::new, crate::decode::stream::verif_h::new_scripted_lit))]
pub fn stream_staged_13_21() {
    staged_stream::<13, 21>()
}

//@ harness props=C05,C16,C15,C07 tier=thorough optional=yes unwind=10 unwindset=default_read_exact:4,process_mode:7,mk_stream_bytes:42,write_piece:4,extend_with:3,CountSink.*4take:6 mem_gb=8 timeout=900 native=no
//@ bound: Stream: 24-byte stream (size 3, abstract symbols 2/3/1 bytes) written as pieces [0,17) [17,18) [18,24), then a 2-byte write after the size is reached, then finish; payload/preamble symbolic
#[cfg_attr(kani, kani::proof)]
#[cfg_attr(kani, kani::stub(std::fmt::format, crate::verif_common::stub_format))]
#[cfg_attr(kani, kani::stub(std::io::Error::is_interrupted, crate::verif_common::stub_not_interrupted))]
#[cfg_attr(kani, kani::stub(crate::decode::lzma::DecoderState::process_next_inner, crate::decode::lzma::verif_h::abs_symbol))]
#[cfg_attr(kani, kani::stub(crate::decode::lzbuffer::LzCircularBuffer::from_stream, crate::decode::lzbuffer::verif_h::circ_from_stream_with_capacity))]
#[cfg_attr(kani, kani::stub(crate::decode::lzma::DecoderState::new, crate::decode::stream::verif_h::new_scripted_lit))]
pub fn stream_staged_17_18() {
    staged_stream::<17, 18>()
}

//@ harness props=C05,C16,C15,C07 tier=thorough optional=yes unwind=10 unwindset=default_read_exact:4,process_mode:7,mk_stream_bytes:42,write_piece:4,extend_with:3,CountSink.*4take:6 mem_gb=8 timeout=900 native=no
//@ bound: Stream: 24-byte stream (size 3, abstract symbols 2/3/1 bytes) written as pieces [0,3) [3,4) [4,24), then a 2-byte write after the size is reached, then finish; payload/preamble symbolic
#[cfg_attr(kani, kani::proof)]
#[cfg_attr(kani, kani::stub(std::fmt::format, crate::verif_common::stub_format))]
#[cfg_attr(kani, kani::stub(std::io::Error::is_interrupted, crate::verif_common::stub_not_interrupted))]
#[cfg_attr(kani, kani::stub(crate::decode::lzma::DecoderState::process_next_inner, crate::decode::lzma::verif_h::abs_symbol))]
#[cfg_attr(kani, kani::stub(crate::decode::lzbuffer::LzCircularBuffer::from_stream, crate::decode::lzbuffer::verif_h::circ_from_stream_with_capacity))]
#[cfg_attr(kani, kani::stub(crate::decode::lzma::DecoderState::new, crate::decode::stream::verif_h::new_scripted_lit))]
pub fn stream_staged_3_4() {
    staged_stream::<3, 4>()
}

//@ harness props=C05,C16,C15,C07 tier=thorough optional=yes unwind=10 unwindset=default_read_exact:4,process_mode:7,mk_stream_bytes:42,write_piece:4,extend_with:3,CountSink.*4take:6 mem_gb=8 timeout=900 native=no
//@ bound: Stream: 24-byte stream (size 3, abstract symbols 2/3/1 bytes) written as pieces [0,19) [19,22) [22,24), then a 2-byte write after the size is reached, then finish; payload/preamble symbolic
#[cfg_attr(kani, kani::proof)]
#[cfg_attr(kani, kani::stub(std::fmt::format, crate::verif_common::stub_format))]
#[cfg_attr(kani, kani::stub(std::io::Error::is_interrupted, crate::verif_common::stub_not_interrupted))]
#[cfg_attr(kani, kani::stub(crate::decode::lzma::DecoderState::process_next_inner, crate::decode::lzma::verif_h::abs_symbol))]
#[cfg_attr(kani, kani::stub(crate::decode::lzbuffer::LzCircularBuffer::from_stream, crate::decode::lzbuffer::verif_h::circ_from_stream_with_capacity))]
#[cfg_attr(kani, kani::stub(crate::decode::lzma::DecoderState::new, crate::decode::stream::verif_h::new_scripted_lit))]
pub fn stream_staged_19_22() {
    staged_stream::<19, 22>()
}

//@ harness props=C05,C16,C15,C07 tier=thorough optional=yes unwind=10 unwindset=default_read_exact:4,process_mode:7,mk_stream_bytes:42,write_piece:4,extend_with:3,CountSink.*4take:6 mem_gb=8 timeout=900 native=no
//@ bound: Stream: 24-byte stream (size 3, abstract symbols 2/3/1 bytes) written as pieces [0,18) [18,20) [20,24), then a 2-byte write after the size is reached, then finish; payload/preamble symbolic
#[cfg_attr(kani, kani::proof)]
#[cfg_attr(kani, kani::stub(std::fmt::format, crate::verif_common::stub_format))]
#[cfg_attr(kani, kani::stub(std::io::Error::is_interrupted, crate::verif_common::stub_not_interrupted))]
#[cfg_attr(kani, kani::stub(crate::decode::lzma::DecoderState::process_next_inner, crate::decode::lzma::verif_h::abs_symbol))]
#[cfg_attr(kani, kani::stub(crate::decode::lzbuffer::LzCircularBuffer::from_stream, crate::decode::lzbuffer::verif_h::circ_from_stream_with_capacity))]
#[cfg_attr(kani, kani::stub(crate::decode::lzma::DecoderState::new, crate::decode::stream::verif_h::new_scripted_lit))]
pub fn stream_staged_18_20() {
    staged_stream::<18, 20>()
}

//@ harness props=C16,C07 tier=thorough optional=yes unwind=10 unwindset=default_read_exact:4,process_mode:7,mk_stream_bytes:42,write_piece:4,extend_with:3,CountSink.*4take:6 mem_gb=8 timeout=900 native=no
//@ bound: Stream: 40-byte stream whose second abstract symbol is corrupt, written as [0,18) [18,40); then another write and finish
#[cfg_attr(kani, kani::proof)]
#[cfg_attr(kani, kani::stub(std::fmt::format, crate::verif_common::stub_format))]
#[cfg_attr(kani, kani::stub(std::io::Error::is_interrupted, crate::verif_common::stub_not_interrupted))]
#[cfg_attr(kani, kani::stub(crate::decode::lzma::DecoderState::process_next_inner, crate::decode::lzma::verif_h::abs_symbol))]
#[cfg_attr(kani, kani::stub(crate::decode::lzbuffer::LzCircularBuffer::from_stream, crate::decode::lzbuffer::verif_h::circ_from_stream_with_capacity))]
#[cfg_attr(kani, kani::stub(crate::decode::lzma::DecoderState::new, crate::decode::stream::verif_h::new_scripted_bad))]
pub fn stream_latch_data_error_18() {
    latch_after_data_error::<18>()
}

//@ harness props=C16,C07 tier=thorough optional=yes unwind=10 unwindset=default_read_exact:4,process_mode:7,mk_stream_bytes:42,write_piece:4,extend_with:3,CountSink.*4take:6 mem_gb=8 timeout=900 native=no
//@ bound: Stream: 40-byte stream whose second abstract symbol is corrupt, written as [0,25) [25,40); then another write and finish
#[cfg_attr(kani, kani::proof)]
#[cfg_attr(kani, kani::stub(std::fmt::format, crate::verif_common::stub_format))]
#[cfg_attr(kani, kani::stub(std::io::Error::is_interrupted, crate::verif_common::stub_not_interrupted))]
#[cfg_attr(kani, kani::stub(crate::decode::lzma::DecoderState::process_next_inner, crate::decode::lzma::verif_h::abs_symbol))]
#[cfg_attr(kani, kani::stub(crate::decode::lzbuffer::LzCircularBuffer::from_stream, crate::decode::lzbuffer::verif_h::circ_from_stream_with_capacity))]
#[cfg_attr(kani, kani::stub(crate::decode::lzma::DecoderState::new, crate::decode::stream::verif_h::new_scripted_bad))]
pub fn stream_latch_data_error_25() {
    latch_after_data_error::<25>()
}

//@ harness props=C16,C07 tier=thorough optional=yes unwind=10 unwindset=default_read_exact:4,process_mode:7,mk_stream_bytes:42,write_piece:4,extend_with:3,CountSink.*4take:6 mem_gb=8 timeout=900 native=no
//@ bound: Stream: 40-byte stream whose second abstract symbol is corrupt, written as [0,7) [7,40); then another write and finish
#[cfg_attr(kani, kani::proof)]
#[cfg_attr(kani, kani::stub(std::fmt::format, crate::verif_common::stub_format))]
#[cfg_attr(kani, kani::stub(std::io::Error::is_interrupted, crate::verif_common::stub_not_interrupted))]
#[cfg_attr(kani, kani::stub(crate::decode::lzma::DecoderState::process_next_inner, crate::decode::lzma::verif_h::abs_symbol))]
#[cfg_attr(kani, kani::stub(crate::decode::lzbuffer::LzCircularBuffer::from_stream, crate::decode::lzbuffer::verif_h::circ_from_stream_with_capacity))]
#[cfg_attr(kani, kani::stub(crate::decode::lzma::DecoderState::new, crate::decode::stream::verif_h::new_scripted_bad))]
pub fn stream_latch_data_error_7() {
    latch_after_data_error::<7>()
}

//@ harness props=C15,C10,C05 tier=thorough optional=yes unwind=10 unwindset=default_read_exact:4,process_mode:7,mk_stream_bytes:42,write_piece:4,extend_with:3,CountSink.*4take:6,finish_incomplete:4 mem_gb=8 timeout=900 native=no opt_covers=incomplete_err
//@ bound: Stream(allow_incomplete=true, memlimit symbolic): one write of 21 bytes (13 header + 5 preamble + abstract symbols 2/3/1), then finish
#[cfg_attr(kani, kani::proof)]
#[cfg_attr(kani, kani::stub(std::fmt::format, crate::verif_common::stub_format))]
#[cfg_attr(kani, kani::stub(std::io::Error::is_interrupted, crate::verif_common::stub_not_interrupted))]
#[cfg_attr(kani, kani::stub(crate::decode::lzma::DecoderState::process_next_inner, crate::decode::lzma::verif_h::abs_symbol))]
#[cfg_attr(kani, kani::stub(crate::decode::lzbuffer::LzCircularBuffer::from_stream, crate::decode::lzbuffer::verif_h::circ_from_stream_with_capacity))]
#[cfg_attr(kani, kani::stub(crate::decode::lzma::DecoderState::new, crate::decode::stream::verif_h::new_scripted_lit))]
pub fn stream_finish_incomplete_allow_21() {
    finish_incomplete::<true, 21>()
}

//@ harness props=C15,C10,C05 tier=thorough optional=yes unwind=10 unwindset=default_read_exact:4,process_mode:7,mk_stream_bytes:42,write_piece:4,extend_with:3,CountSink.*4take:6,finish_incomplete:4 mem_gb=8 timeout=900 native=no opt_covers=incomplete_ok
//@ bound: Stream(allow_incomplete=false, memlimit symbolic): one write of 21 bytes (13 header + 5 preamble + abstract symbols 2/3/1), then finish
#[cfg_attr(kani, kani::proof)]
#[cfg_attr(kani, kani::stub(std::fmt::format, crate::verif_common::stub_format))]
#[cfg_attr(kani, kani::stub(std::io::Error::is_interrupted, crate::verif_common::stub_not_interrupted))]
#[cfg_attr(kani, kani::stub(crate::decode::lzma::DecoderState::process_next_inner, crate::decode::lzma::verif_h::abs_symbol))]
#[cfg_attr(kani, kani::stub(crate::decode::lzbuffer::LzCircularBuffer::from_stream, crate::decode::lzbuffer::verif_h::circ_from_stream_with_capacity))]
#[cfg_attr(kani, kani::stub(crate::decode::lzma::DecoderState::new, crate::decode::stream::verif_h::new_scripted_lit))]
pub fn stream_finish_incomplete_strict_21() {
    finish_incomplete::<false, 21>()
}

//@ harness props=C15,C10,C05 tier=quick unwind=10 unwindset=default_read_exact:4,process_mode:7,mk_stream_bytes:42,write_piece:4,extend_with:3,CountSink.*4take:6,finish_incomplete:4 mem_gb=8 timeout=900 native=no opt_covers=incomplete_err
//@ bound: Stream(allow_incomplete=true, memlimit symbolic): one write of 18 bytes (13 header + 5 preamble + abstract symbols 2/3/1), then finish
#[cfg_attr(kani, kani::proof)]
#[cfg_attr(kani, kani::stub(std::fmt::format, crate::verif_common::stub_format))]
#[cfg_attr(kani, kani::stub(std::io::Error::is_interrupted, crate::verif_common::stub_not_interrupted))]
#[cfg_attr(kani, kani::stub(crate::decode::lzma::DecoderState::process_next_inner, crate::decode::lzma::verif_h::abs_symbol))]
#[cfg_attr(kani, kani::stub(crate::decode::lzbuffer::LzCircularBuffer::from_stream, crate::decode::lzbuffer::verif_h::circ_from_stream_with_capacity))]
#[cfg_attr(kani, kani::stub(crate::decode::lzma::DecoderState::new, crate::decode::stream::verif_h::new_scripted_lit))]
pub fn stream_finish_incomplete_allow_18() {
    finish_incomplete::<true, 18>()
}

//@ harness props=C15,C10,C05 tier=thorough optional=yes unwind=10 unwindset=default_read_exact:4,process_mode:7,mk_stream_bytes:42,write_piece:4,extend_with:3,CountSink.*4take:6,finish_incomplete:4 mem_gb=8 timeout=900 native=no opt_covers=incomplete_err
//@ bound: Stream(allow_incomplete=true, memlimit symbolic): one write of 23 bytes (13 header + 5 preamble + abstract symbols 2/3/1), then finish
#[cfg_attr(kani, kani::proof)]
#[cfg_attr(kani, kani::stub(std::fmt::format, crate::verif_common::stub_format))]
#[cfg_attr(kani, kani::stub(std::io::Error::is_interrupted, crate::verif_common::stub_not_interrupted))]
#[cfg_attr(kani, kani::stub(crate::decode::lzma::DecoderState::process_next_inner, crate::decode::lzma::verif_h::abs_symbol))]
#[cfg_attr(kani, kani::stub(crate::decode::lzbuffer::LzCircularBuffer::from_stream, crate::decode::lzbuffer::verif_h::circ_from_stream_with_capacity))]
#[cfg_attr(kani, kani::stub(crate::decode::lzma::DecoderState::new, crate::decode::stream::verif_h::new_scripted_lit))]
pub fn stream_finish_incomplete_allow_23() {
    finish_incomplete::<true, 23>()
}

//@ harness props=C15,C10,C05 tier=thorough optional=yes unwind=10 unwindset=default_read_exact:4,process_mode:7,mk_stream_bytes:42,write_piece:4,extend_with:3,CountSink.*4take:6,finish_incomplete:4 mem_gb=8 timeout=900 native=no opt_covers=incomplete_ok
//@ bound: Stream(allow_incomplete=false, memlimit symbolic): one write of 18 bytes (13 header + 5 preamble + abstract symbols 2/3/1), then finish
#[cfg_attr(kani, kani::proof)]
#[cfg_attr(kani, kani::stub(std::fmt::format, crate::verif_common::stub_format))]
#[cfg_attr(kani, kani::stub(std::io::Error::is_interrupted, crate::verif_common::stub_not_interrupted))]
#[cfg_attr(kani, kani::stub(crate::decode::lzma::DecoderState::process_next_inner, crate::decode::lzma::verif_h::abs_symbol))]
#[cfg_attr(kani, kani::stub(crate::decode::lzbuffer::LzCircularBuffer::from_stream, crate::decode::lzbuffer::verif_h::circ_from_stream_with_capacity))]
#[cfg_attr(kani, kani::stub(crate::decode::lzma::DecoderState::new, crate::decode::stream::verif_h::new_scripted_lit))]
pub fn stream_finish_incomplete_strict_18() {
    finish_incomplete::<false, 18>()
}


/// C05-H1 (header staging through `tmp`), 5-byte header (UseProvided) so that bytes beyond
/// header + preamble can be staged: pieces [0,C1) and [C1,C1+N2) with C1 < 10 <= C1+N2.
/// After the second write the stream must be in the data state with (range, code) from bytes
/// 5..10 and exactly the staged-but-unparsed bytes left in tmp, in order.
fn header_staging<const C1: usize, const MID: usize, const N2: usize>() {
    let mut t = Tape::<64>::new();
    let mut f = [0u8; 32];
    let mut i = 1;
    while i < 32 {
        f[i] = t.u8();
        i += 1;
    }
    f[0] = 0x5D; // lc=3 lp=0 pb=2 (concrete properties byte)
    let size = t.u64();
    let ml = t.usize();
    let ml_some = t.bool();
    let o = Options {
        unpacked_size: crate::decompress::UnpackedSize::UseProvided(Some(size)),
        memlimit: if ml_some { Some(ml) } else { None },
        allow_incomplete: false,
    };
    let mut s = Stream::new_with_options(&o, CountSink::new());
    let r1 = s.write(&f[..C1]);
    let n1 = match &r1 { Ok(n) => *n, Err(_) => usize::MAX };
    forget(r1);
    vassert!(n1 == C1, "staging: a piece shorter than header + preamble is staged in full");
    vassert!(s.tmp.position() as usize == C1, "staging: staged byte count");
    let in_header = match &s.state {
        Some(State::Header(_)) => true,
        _ => false,
    };
    vassert!(in_header, "staging: still waiting for the header");
    // optional middle piece that still does not complete header + preamble (MID = 0: none;
    // an empty write when C1 + MID == C1 is covered by MID = 0 instances with an explicit empty write)
    if MID > 0 {
        let rm = s.write(&f[C1..C1 + MID]);
        let nm = match &rm { Ok(n) => *n, Err(_) => usize::MAX };
        forget(rm);
        vassert!(nm == MID, "staging: a second short piece is staged in full");
        vassert!(s.tmp.position() as usize == C1 + MID, "staging: staged bytes accumulate across pieces");
    } else {
        let re = s.write(&f[0..0]);
        let ne = match &re { Ok(n) => *n, Err(_) => usize::MAX };
        forget(re);
        vassert!(ne == 0 && s.tmp.position() as usize == C1, "staging: an empty write changes nothing");
    }
    let c1 = C1 + MID;
    let r2 = s.write(&f[c1..c1 + N2]);
    let n2 = match &r2 { Ok(n) => *n, Err(_) => usize::MAX };
    forget(r2);
    // tmp holds at most 18 bytes: the completing write takes what fits
    let take = if c1 + N2 <= 18 { N2 } else { 18 - c1 };
    vassert!(n2 == take, "staging: the completing write consumes exactly what it staged");
    match data_state(&s) {
        Some(rs) => {
            vassert!(rs.range == 0xFFFF_FFFF, "staging: range after the preamble");
            vassert!(rs.code == u32::from_be_bytes([f[6], f[7], f[8], f[9]]), "staging: code = big-endian preamble bytes 1..5 (byte 0 ignored)");
            vassert!(crate::decode::lzbuffer::verif_h::circ_dict_size(&rs.output) == {
                let d = u32::from_le_bytes([f[1], f[2], f[3], f[4]]) as usize;
                if d < 0x1000 { 0x1000 } else { d }
            }, "staging: dictionary size from header bytes 1..5, at least 4096");
            vassert!(crate::decode::lzma::verif_h::unpacked_size_of(&rs.decoder) == Some(size), "staging: the provided size is in effect");
            vassert!(crate::decode::lzbuffer::verif_h::circ_memlimit(&rs.output) == if ml_some { ml } else { usize::MAX }, "staging: the memory limit reaches the window also when the header arrives in pieces");
        }
        None => {
            vassert!(false, "staging: data state entered once header + preamble are available");
        }
    }
    let left = c1 + take - 10;
    vassert!(s.tmp.position() as usize == left, "staging: leftover = staged bytes beyond header + preamble");
    let q = (t.u8() as usize) % 18;
    if q < left {
        vassert!(s.tmp.get_ref()[q] == f[10 + q], "staging: leftover bytes are the unparsed bytes, in order, at the front of tmp");
    }
    vcover!(left > 0, "leftover_nonzero");
    vcover!(true, "end_reached");
    forget(s);
}

//@ harness props=C05,C07 tier=thorough optional=yes unwind=10 unwindset=default_read_exact:4,header_staging:34 mem_gb=6 timeout=600 native=no
//@ bound: Stream(UseProvided(symbolic)): write 1 bytes then 17 bytes of a symbolic stream (properties byte 0x5D): header staging, leftover handling
#[cfg_attr(kani, kani::proof)]
#[cfg_attr(kani, kani::stub(std::fmt::format, crate::verif_common::stub_format))]
#[cfg_attr(kani, kani::stub(std::io::Error::is_interrupted, crate::verif_common::stub_not_interrupted))]
#[cfg_attr(kani, kani::stub(crate::decode::lzma::DecoderState::new, crate::decode::stream::verif_h::new_scripted_lit))]
pub fn stream_header_staging_1_17() {
    header_staging::<1, 0, 17>()
}

//@ harness props=C05,C07 tier=thorough optional=yes unwind=10 unwindset=default_read_exact:4,header_staging:34 mem_gb=6 timeout=600 native=no
//@ bound: Stream(UseProvided(symbolic)): write 1 bytes then 20 bytes of a symbolic stream (properties byte 0x5D): header staging, leftover handling
#[cfg_attr(kani, kani::proof)]
#[cfg_attr(kani, kani::stub(std::fmt::format, crate::verif_common::stub_format))]
#[cfg_attr(kani, kani::stub(std::io::Error::is_interrupted, crate::verif_common::stub_not_interrupted))]
#[cfg_attr(kani, kani::stub(crate::decode::lzma::DecoderState::new, crate::decode::stream::verif_h::new_scripted_lit))]
pub fn stream_header_staging_1_20() {
    header_staging::<1, 0, 20>()
}

//@ harness props=C05,C07 tier=thorough optional=yes unwind=10 unwindset=default_read_exact:4,header_staging:34 mem_gb=6 timeout=600 native=no
//@ bound: Stream(UseProvided(symbolic)): write 3 bytes then 15 bytes of a symbolic stream (properties byte 0x5D): header staging, leftover handling
#[cfg_attr(kani, kani::proof)]
#[cfg_attr(kani, kani::stub(std::fmt::format, crate::verif_common::stub_format))]
#[cfg_attr(kani, kani::stub(std::io::Error::is_interrupted, crate::verif_common::stub_not_interrupted))]
#[cfg_attr(kani, kani::stub(crate::decode::lzma::DecoderState::new, crate::decode::stream::verif_h::new_scripted_lit))]
pub fn stream_header_staging_3_15() {
    header_staging::<3, 0, 15>()
}

//@ harness props=C05,C07 tier=thorough optional=yes unwind=10 unwindset=default_read_exact:4,header_staging:34 mem_gb=6 timeout=600 native=no opt_covers=leftover_nonzero
//@ bound: Stream(UseProvided(symbolic)): write 4 bytes then 6 bytes of a symbolic stream (properties byte 0x5D): header staging, leftover handling
#[cfg_attr(kani, kani::proof)]
#[cfg_attr(kani, kani::stub(std::fmt::format, crate::verif_common::stub_format))]
#[cfg_attr(kani, kani::stub(std::io::Error::is_interrupted, crate::verif_common::stub_not_interrupted))]
#[cfg_attr(kani, kani::stub(crate::decode::lzma::DecoderState::new, crate::decode::stream::verif_h::new_scripted_lit))]
pub fn stream_header_staging_4_6() {
    header_staging::<4, 0, 6>()
}

//@ harness props=C05,C08,C10,C13,C15,C07,C16 tier=quick unwind=10 unwindset=default_read_exact:4,header_staging:34 mem_gb=6 timeout=600 native=no opt_covers=leftover_nonzero
//@ bound: Stream(UseProvided(symbolic)): write 5 bytes then 5 bytes of a symbolic stream (properties byte 0x5D): header staging, leftover handling
#[cfg_attr(kani, kani::proof)]
#[cfg_attr(kani, kani::stub(std::fmt::format, crate::verif_common::stub_format))]
#[cfg_attr(kani, kani::stub(std::io::Error::is_interrupted, crate::verif_common::stub_not_interrupted))]
#[cfg_attr(kani, kani::stub(crate::decode::lzma::DecoderState::new, crate::decode::stream::verif_h::new_scripted_lit))]
pub fn stream_header_staging_5_5() {
    header_staging::<5, 0, 5>()
}

//@ harness props=C05,C08,C10,C13,C15,C07,C16 tier=quick unwind=10 unwindset=default_read_exact:4,header_staging:34 mem_gb=6 timeout=600 native=no opt_covers=leftover_nonzero
//@ bound: Stream(UseProvided(symbolic)): write 9 bytes then 1 bytes of a symbolic stream (properties byte 0x5D): header staging, leftover handling
#[cfg_attr(kani, kani::proof)]
#[cfg_attr(kani, kani::stub(std::fmt::format, crate::verif_common::stub_format))]
#[cfg_attr(kani, kani::stub(std::io::Error::is_interrupted, crate::verif_common::stub_not_interrupted))]
#[cfg_attr(kani, kani::stub(crate::decode::lzma::DecoderState::new, crate::decode::stream::verif_h::new_scripted_lit))]
pub fn stream_header_staging_9_1() {
    header_staging::<9, 0, 1>()
}

//@ harness props=C05,C08,C10,C13,C15,C07,C16 tier=quick unwind=10 unwindset=default_read_exact:4,header_staging:34 mem_gb=6 timeout=600 native=no
//@ bound: Stream(UseProvided(symbolic)): write 9 bytes then 9 bytes of a symbolic stream (properties byte 0x5D): header staging, leftover handling
#[cfg_attr(kani, kani::proof)]
#[cfg_attr(kani, kani::stub(std::fmt::format, crate::verif_common::stub_format))]
#[cfg_attr(kani, kani::stub(std::io::Error::is_interrupted, crate::verif_common::stub_not_interrupted))]
#[cfg_attr(kani, kani::stub(crate::decode::lzma::DecoderState::new, crate::decode::stream::verif_h::new_scripted_lit))]
pub fn stream_header_staging_9_9() {
    header_staging::<9, 0, 9>()
}

//@ harness props=C05,C08,C10,C13,C15,C07,C16 tier=quick unwind=10 unwindset=default_read_exact:4,header_staging:34 mem_gb=6 timeout=600 native=no
//@ bound: Stream(UseProvided(symbolic)): write 6 bytes then 12 bytes of a symbolic stream (properties byte 0x5D): header staging, leftover handling
#[cfg_attr(kani, kani::proof)]
#[cfg_attr(kani, kani::stub(std::fmt::format, crate::verif_common::stub_format))]
#[cfg_attr(kani, kani::stub(std::io::Error::is_interrupted, crate::verif_common::stub_not_interrupted))]
#[cfg_attr(kani, kani::stub(crate::decode::lzma::DecoderState::new, crate::decode::stream::verif_h::new_scripted_lit))]
pub fn stream_header_staging_6_12() {
    header_staging::<6, 0, 12>()
}

//@ harness props=C05,C07 tier=thorough optional=yes unwind=10 unwindset=default_read_exact:4,header_staging:34 mem_gb=6 timeout=600 native=no opt_covers=leftover_nonzero
//@ bound: Stream(UseProvided(symbolic)): write 2 bytes then 8 bytes of a symbolic stream (properties byte 0x5D): header staging, leftover handling
#[cfg_attr(kani, kani::proof)]
#[cfg_attr(kani, kani::stub(std::fmt::format, crate::verif_common::stub_format))]
#[cfg_attr(kani, kani::stub(std::io::Error::is_interrupted, crate::verif_common::stub_not_interrupted))]
#[cfg_attr(kani, kani::stub(crate::decode::lzma::DecoderState::new, crate::decode::stream::verif_h::new_scripted_lit))]
pub fn stream_header_staging_2_8() {
    header_staging::<2, 0, 8>()
}

//@ harness props=C05,C08,C10,C13,C15,C07,C16 tier=quick unwind=10 unwindset=default_read_exact:4,header_staging:34 mem_gb=6 timeout=600 native=no
//@ bound: Stream(UseProvided(symbolic)): three pieces 5 + 2 + 6 bytes (two cuts inside header + preamble): staging accumulates, leftover handling
#[cfg_attr(kani, kani::proof)]
#[cfg_attr(kani, kani::stub(std::fmt::format, crate::verif_common::stub_format))]
#[cfg_attr(kani, kani::stub(std::io::Error::is_interrupted, crate::verif_common::stub_not_interrupted))]
#[cfg_attr(kani, kani::stub(crate::decode::lzma::DecoderState::new, crate::decode::stream::verif_h::new_scripted_lit))]
pub fn stream_header_staging3_5_2_6() {
    header_staging::<5, 2, 6>()
}

//@ harness props=C05,C08,C10,C13,C15,C07,C16 tier=quick unwind=10 unwindset=default_read_exact:4,header_staging:34 mem_gb=6 timeout=600 native=no
//@ bound: Stream(UseProvided(symbolic)): three pieces 6 + 3 + 9 bytes (two cuts inside header + preamble): staging accumulates, leftover handling
#[cfg_attr(kani, kani::proof)]
#[cfg_attr(kani, kani::stub(std::fmt::format, crate::verif_common::stub_format))]
#[cfg_attr(kani, kani::stub(std::io::Error::is_interrupted, crate::verif_common::stub_not_interrupted))]
#[cfg_attr(kani, kani::stub(crate::decode::lzma::DecoderState::new, crate::decode::stream::verif_h::new_scripted_lit))]
pub fn stream_header_staging3_6_3_9() {
    header_staging::<6, 3, 9>()
}

//@ harness props=C05,C08,C10,C13,C15,C07,C16 tier=quick unwind=10 unwindset=default_read_exact:4,header_staging:34 mem_gb=6 timeout=600 native=no opt_covers=leftover_nonzero
//@ bound: Stream(UseProvided(symbolic)): three pieces 5 + 1 + 4 bytes (two cuts inside header + preamble): staging accumulates, leftover handling
#[cfg_attr(kani, kani::proof)]
#[cfg_attr(kani, kani::stub(std::fmt::format, crate::verif_common::stub_format))]
#[cfg_attr(kani, kani::stub(std::io::Error::is_interrupted, crate::verif_common::stub_not_interrupted))]
#[cfg_attr(kani, kani::stub(crate::decode::lzma::DecoderState::new, crate::decode::stream::verif_h::new_scripted_lit))]
pub fn stream_header_staging3_5_1_4() {
    header_staging::<5, 1, 4>()
}

/// C16(b) on the data arm of Stream::write, starting from a stream built directly in the data
/// state with LEFT bytes left over in `tmp` (what header staging leaves behind): the first
/// abstract symbol (2 bytes) is a literal, the second (3 bytes) is corrupt.
fn data_arm_error<const LEFT: usize, const N: usize>() {
    let mut t = Tape::<64>::new();
    let left: [u8; 18] = t.bytes::<18>();
    let input: [u8; N] = t.bytes::<N>();
    let extra = [t.u8(), t.u8()];
    let range = t.u32();
    let code = t.u32();
    let mut d = light_state::<0>(LzmaProperties { lc: 0, lp: 0, pb: 0 }, None);
    set_script(&mut d, [script(2, K_LIT), script(3, K_BAD), script(1, K_LIT), script(20, K_LIT)]);
    let mut tmp = std::io::Cursor::new([0u8; MAX_TMP_LEN]);
    {
        let b = tmp.get_mut();
        let mut i = 0;
        while i < LEFT {
            b[i] = left[i];
            i += 1;
        }
    }
    tmp.set_position(LEFT as u64);
    let rs = RunState {
        decoder: d,
        range,
        code,
        output: crate::decode::lzbuffer::verif_h::circ_from_stream_with_capacity(CountSink::new(), 0x1000, usize::MAX),
    };
    let mut s = Stream {
        tmp,
        state: Some(State::Data(Box::new(rs))),
        options: opts(false, None),
    };
    let r1 = s.write(&input[..]);
    let e1 = r1.is_err();
    forget(r1);
    // LEFT + N >= 5 bytes and the corrupt symbol is complete -> the error surfaces in this write
    vassert!(e1, "stream: a corrupt symbol (in the staged leftover or the new input) is a write error");
    vassert!(is_failed(&s), "stream: the stream is failed after a decoding error, also when it occurs while draining the staged bytes");
    let r2 = s.write(&extra[..]);
    match &r2 {
        Ok(n) => {
            vassert!(*n == 0, "stream: writes after a decoding error consume nothing");
        }
        Err(_) => {}
    }
    forget(r2);
    let fin = s.finish();
    vassert!(fin.is_err(), "stream: finish after a decoding error is an error");
    forget(fin);
    vcover!(true, "end_reached");
}

//@ harness props=C16,C07 tier=thorough optional=yes unwind=22 unwindset=process_mode:7,extend_with:3,CountSink.*4take:6 mem_gb=8 timeout=1800 native=no cbmc=--max-field-sensitivity-array-size;1024
//@ bound: Stream built in the data state with 8 staged leftover bytes; write(3 symbolic bytes) where the second abstract symbol is corrupt; then write, finish
#[cfg_attr(kani, kani::proof)]
#[cfg_attr(kani, kani::stub(std::fmt::format, crate::verif_common::stub_format))]
#[cfg_attr(kani, kani::stub(std::io::Error::is_interrupted, crate::verif_common::stub_not_interrupted))]
#[cfg_attr(kani, kani::stub(crate::decode::lzma::DecoderState::process_next_inner, crate::decode::lzma::verif_h::abs_symbol))]
pub fn stream_data_arm_error_l8_n3() {
    data_arm_error::<8, 3>()
}

//@ harness props=C16,C07 tier=thorough optional=yes unwind=22 unwindset=process_mode:7,extend_with:3,CountSink.*4take:6 mem_gb=8 timeout=1800 native=no
//@ bound: Stream built in the data state with 2 staged leftover bytes; write(20 symbolic bytes) where the second abstract symbol is corrupt; then write, finish
#[cfg_attr(kani, kani::proof)]
#[cfg_attr(kani, kani::stub(std::fmt::format, crate::verif_common::stub_format))]
#[cfg_attr(kani, kani::stub(std::io::Error::is_interrupted, crate::verif_common::stub_not_interrupted))]
#[cfg_attr(kani, kani::stub(crate::decode::lzma::DecoderState::process_next_inner, crate::decode::lzma::verif_h::abs_symbol))]
pub fn stream_data_arm_error_l2_n20() {
    data_arm_error::<2, 20>()
}

//@ harness props=C16,C07 tier=thorough optional=yes unwind=22 unwindset=process_mode:7,extend_with:3,CountSink.*4take:6 mem_gb=8 timeout=1800 native=no
//@ bound: Stream built in the data state with 0 staged leftover bytes; write(6 symbolic bytes) where the second abstract symbol is corrupt; then write, finish
#[cfg_attr(kani, kani::proof)]
#[cfg_attr(kani, kani::stub(std::fmt::format, crate::verif_common::stub_format))]
#[cfg_attr(kani, kani::stub(std::io::Error::is_interrupted, crate::verif_common::stub_not_interrupted))]
#[cfg_attr(kani, kani::stub(crate::decode::lzma::DecoderState::process_next_inner, crate::decode::lzma::verif_h::abs_symbol))]
pub fn stream_data_arm_error_l0_n6() {
    data_arm_error::<0, 6>()
}

// ---------------------------------------------------------------------------------------
// The data arm of Stream::write with `Stream::read_data` replaced by a scripted observer
// (read_data = process_stream + write-back of (range, code): decided directly in
// stream_read_data_*). What is decided here is the arm's own glue: the staged leftover is
// drained first and exactly once, the new input follows, an error from either call is returned
// AND latches the stream, later writes consume nothing.
// ---------------------------------------------------------------------------------------
use std::sync::atomic::{AtomicUsize, Ordering};
pub static RD_CALLS: AtomicUsize = AtomicUsize::new(0);
pub static RD_FAIL_AT: AtomicUsize = AtomicUsize::new(usize::MAX);
pub static RD_LEN0: AtomicUsize = AtomicUsize::new(usize::MAX);
pub static RD_LEN1: AtomicUsize = AtomicUsize::new(usize::MAX);
pub static RD_LEN2: AtomicUsize = AtomicUsize::new(usize::MAX);
pub static RD_LEN3: AtomicUsize = AtomicUsize::new(usize::MAX);

impl<W> Stream<W>
where
    W: Write,
{
    /// scripted stand-in for read_data (an inherent method so that its generics line up with the original's)
    pub fn scripted_read_data<R: BufRead>(state: &mut RunState<W>, input: &mut R) -> io::Result<()> {
        scripted_read_data_impl(state, input)
    }
}

pub fn scripted_read_data_impl<W: Write, R: BufRead>(_state: &mut RunState<W>, input: &mut R) -> io::Result<()> {
    let k = RD_CALLS.load(Ordering::Relaxed);
    RD_CALLS.store(k + 1, Ordering::Relaxed);
    let n = match input.fill_buf() {
        Ok(b) => b.len(),
        Err(e) => return Err(e),
    };
    input.consume(n);
    if k == 0 {
        RD_LEN0.store(n, Ordering::Relaxed);
    } else if k == 1 {
        RD_LEN1.store(n, Ordering::Relaxed);
    } else if k == 2 {
        RD_LEN2.store(n, Ordering::Relaxed);
    } else {
        RD_LEN3.store(n, Ordering::Relaxed);
    }
    if k == RD_FAIL_AT.load(Ordering::Relaxed) {
        return Err(io_fault());
    }
    Ok(())
}

fn data_arm_glue<const LEFT: usize, const N: usize, const FAIL: usize, const KIND: usize, const ALLOW: bool, const CONSUME: usize>() {
    use crate::decode::lzma::verif_h::{PS_CALLS, PS_CONSUME, PS_FAIL_AT, PS_FAIL_KIND, PS_LEN0, PS_LEN1, PS_LEN2};
    let mut t = Tape::<64>::new();
    let left: [u8; 18] = t.bytes::<18>();
    let input: [u8; N] = t.bytes::<N>();
    let extra = [t.u8(), t.u8()];
    PS_CALLS.store(0, Ordering::Relaxed);
    PS_FAIL_AT.store(FAIL, Ordering::Relaxed);
    PS_FAIL_KIND.store(KIND, Ordering::Relaxed);
    PS_CONSUME.store(CONSUME, Ordering::Relaxed);
    let d = light_state::<0>(LzmaProperties { lc: 0, lp: 0, pb: 0 }, None);
    let mut tmp = std::io::Cursor::new([0u8; MAX_TMP_LEN]);
    {
        let b = tmp.get_mut();
        let mut i = 0;
        while i < LEFT {
            b[i] = left[i];
            i += 1;
        }
    }
    tmp.set_position(LEFT as u64);
    let r0 = t.u32();
    let c0 = t.u32();
    let rs = RunState {
        decoder: d,
        range: r0,
        code: c0,
        output: crate::decode::lzbuffer::verif_h::circ_from_stream_with_capacity(CountSink::new(), 0x1000, usize::MAX),
    };
    let mut s = Stream {
        tmp,
        state: Some(State::Data(Box::new(rs))),
        options: opts(ALLOW, None),
    };
    let r1 = s.write(&input[..]);
    let n1 = match &r1 {
        Ok(n) => *n,
        Err(_) => usize::MAX,
    };
    forget(r1);
    let calls1 = PS_CALLS.load(Ordering::Relaxed);
    let first_calls = if LEFT > 0 { 2 } else { 1 };
    if FAIL < first_calls {
        vassert!(n1 == usize::MAX, "data arm: an error while decoding (staged leftover or new input, decoding error or sink failure) is returned by write");
        vassert!(is_failed(&s), "data arm: the stream is failed after any error of the data phase, whatever the options");
        vassert!(calls1 == FAIL + 1, "data arm: nothing more is decoded after the failing call");
    } else {
        vassert!(n1 == if CONSUME == 1 { N } else { 0 }, "data arm: write reports exactly what the decoder consumed (nothing once the declared size is reached)");
        vassert!(calls1 == first_calls, "data arm: the staged leftover is drained (once) before the new input");
        if LEFT > 0 {
            vassert!(PS_LEN0.load(Ordering::Relaxed) == LEFT && PS_LEN1.load(Ordering::Relaxed) == N, "data arm: first the staged bytes, then the new input, each in full");
        } else {
            vassert!(PS_LEN0.load(Ordering::Relaxed) == N, "data arm: the new input in full");
        }
        vassert!(s.tmp.position() == 0, "data arm: the staged bytes are forgotten once drained");
        match data_state(&s) {
            Some(rs) => {
                // two (or one) scripted steps applied to (r0, c0)
                let (mut er, mut ec) = (r0, c0);
                if LEFT > 0 {
                    er = er.rotate_left(1) ^ 0x5A5A_0000;
                    ec = ec.wrapping_add(LEFT as u32 + 1);
                }
                er = er.rotate_left(1) ^ 0x5A5A_0000;
                ec = ec.wrapping_add(N as u32 + 1);
                vassert!(rs.range == er && rs.code == ec, "data arm: the coder state after each pass is carried into the next and saved");
            }
            None => {
                vassert!(false, "data arm: the stream stays usable");
            }
        }
    }
    // a further write
    let r2 = s.write(&extra[..]);
    let n2 = match &r2 {
        Ok(n) => *n,
        Err(_) => usize::MAX,
    };
    forget(r2);
    let calls2 = PS_CALLS.load(Ordering::Relaxed);
    if FAIL < first_calls {
        vassert!(n2 == 0, "data arm: writes after an error consume nothing");
        vassert!(calls2 == calls1, "data arm: nothing is decoded after the stream failed");
        let fin = s.finish();
        vassert!(fin.is_err(), "data arm: finish after an error is an error");
        forget(fin);
    } else {
        vassert!(calls2 == calls1 + 1, "data arm: the next write decodes only its own bytes (the staged leftover is not fed again)");
        let last = if calls1 == 1 { PS_LEN1.load(Ordering::Relaxed) } else { PS_LEN2.load(Ordering::Relaxed) };
        vassert!(last == 2 && n2 == if CONSUME == 1 { 2 } else { 0 }, "data arm: the next write is offered in full and reports what was consumed");
        forget(s);
    }
    vcover!(true, "end_reached");
}
/// Stream::read_data called directly (RunState by value): it runs process_stream on the input
/// and writes (range, code) back into the run state; a decoding error is mapped to an io error.
fn read_data_unit<const N: usize, const BAD: bool>() {
    let mut t = Tape::<64>::new();
    let input: [u8; N] = t.bytes::<N>();
    let range = t.u32();
    let code = t.u32();
    let mut d = light_state::<0>(LzmaProperties { lc: 0, lp: 0, pb: 0 }, None);
    set_script(&mut d, [script(2, K_LIT), script(3, if BAD { K_BAD } else { K_LIT }), script(20, K_LIT), script(20, K_LIT)]);
    let mut rs = RunState {
        decoder: d,
        range,
        code,
        output: crate::decode::lzbuffer::verif_h::circ_from_stream_with_capacity(CountSink::new(), 0x1000, usize::MAX),
    };
    let mut rd = ArrReader::<N>::new(input, N);
    let r = Stream::read_data(&mut rs, &mut rd);
    let ok = r.is_ok();
    forget(r);
    // N = 7: symbols of 2 and 3 bytes complete, 2 bytes of the next (20-byte) symbol stashed
    let (a, b) = crate::decode::lzma::verif_h::abs_fold(range, code, input[0], input[1]);
    if BAD {
        vassert!(!ok, "read_data: a decoding error becomes an io error");
    } else {
        vassert!(ok, "read_data: well-formed partial input is accepted");
        let (a2, b2) = crate::decode::lzma::verif_h::abs_fold(a, b, input[2], input[4]);
        vassert!(rs.range == a2 && rs.code == b2, "read_data: (range, code) after the committed symbols are written back to the run state");
        vassert!(crate::decode::lzbuffer::verif_h::circ_total(&rs.output) == 2, "read_data: both complete symbols decoded into the window");
        vassert!(rd.pos == N, "read_data: the input piece is drained (the incomplete tail is stashed)");
    }
    vcover!(true, "end_reached");
    forget(rs);
}

//@ harness props=C05,C16,C15 tier=quick unwind=22 unwindset=process_mode:7,extend_with:3 mem_gb=6 timeout=600 native=no
//@ bound: Stream::read_data directly: 7 symbolic bytes = abstract symbols of 2 and 3 bytes + 2 bytes of the next; symbolic (range, code)
#[cfg_attr(kani, kani::proof)]
#[cfg_attr(kani, kani::stub(std::fmt::format, crate::verif_common::stub_format))]
#[cfg_attr(kani, kani::stub(std::io::Error::is_interrupted, crate::verif_common::stub_not_interrupted))]
#[cfg_attr(kani, kani::stub(crate::decode::lzma::DecoderState::process_next_inner, crate::decode::lzma::verif_h::abs_symbol))]
pub fn stream_read_data_ok() {
    read_data_unit::<7, false>()
}

//@ harness props=C05,C16 tier=quick unwind=22 unwindset=process_mode:7,extend_with:3 mem_gb=6 timeout=600 native=no
//@ bound: Stream::read_data directly: 25 symbolic bytes whose second abstract symbol is corrupt
#[cfg_attr(kani, kani::proof)]
#[cfg_attr(kani, kani::stub(std::fmt::format, crate::verif_common::stub_format))]
#[cfg_attr(kani, kani::stub(std::io::Error::is_interrupted, crate::verif_common::stub_not_interrupted))]
#[cfg_attr(kani, kani::stub(crate::decode::lzma::DecoderState::process_next_inner, crate::decode::lzma::verif_h::abs_symbol))]
pub fn stream_read_data_corrupt() {
    // 25 bytes: when the corrupt symbol is reached 23 >= 20 bytes are still available, so it is
    // decoded for real (with fewer than 20 bytes left a failing dry run only defers it)
    read_data_unit::<25, true>()
}

/// Stream::finish on a stream in the data state with LEFT staged bytes that were never fed
/// to the decoder (no write followed the header-completing write). DecoderState::process is
/// scripted: what is decided is finish's glue - the final pass is given exactly the staged
/// bytes (with the saved range/code), unless allow_incomplete skips it; then the window is
/// finished (flushed).
fn finish_leftover<const LEFT: usize, const ALLOW: bool>() {
    use std::sync::atomic::Ordering as O;
    let mut t = Tape::<64>::new();
    let left: [u8; 18] = t.bytes::<18>();
    crate::decode::lzma::verif_h::PR_CALLS.store(0, O::Relaxed);
    crate::decode::lzma::verif_h::PR_LEN.store(usize::MAX, O::Relaxed);
    let d = light_state::<0>(LzmaProperties { lc: 0, lp: 0, pb: 0 }, None);
    let mut tmp = std::io::Cursor::new([0u8; MAX_TMP_LEN]);
    {
        let b = tmp.get_mut();
        let mut i = 0;
        while i < LEFT {
            b[i] = left[i];
            i += 1;
        }
    }
    tmp.set_position(LEFT as u64);
    let rs = RunState {
        decoder: d,
        range: t.u32(),
        code: t.u32(),
        output: crate::decode::lzbuffer::verif_h::circ_from_stream_with_capacity(CountSink::new(), 0x1000, usize::MAX),
    };
    let s = Stream {
        tmp,
        state: Some(State::Data(Box::new(rs))),
        options: opts(ALLOW, None),
    };
    let fin = s.finish();
    match &fin {
        Ok(sink) => {
            vassert!(sink.flushes >= 1, "finish: the sink is flushed");
        }
        Err(_) => {
            vassert!(false, "finish: succeeds when the final pass succeeds");
        }
    }
    forget(fin);
    let calls = crate::decode::lzma::verif_h::PR_CALLS.load(O::Relaxed);
    if ALLOW {
        vassert!(calls == 0, "finish: allow_incomplete skips the end-of-stream pass");
    } else {
        vassert!(calls == 1, "finish: exactly one final pass");
        vassert!(crate::decode::lzma::verif_h::PR_LEN.load(O::Relaxed) == LEFT, "finish: the final pass is given the bytes still staged in the header buffer, all of them");
        if LEFT > 0 {
            vassert!(crate::decode::lzma::verif_h::PR_FIRST.load(O::Relaxed) == left[0] as usize, "finish: staged bytes in order");
        }
    }
    vcover!(true, "end_reached");
}

//@ harness props=C05,C15,C12 tier=quick unwind=22 mem_gb=6 timeout=600 native=no
//@ bound: Stream::finish (allow_incomplete=false) on a stream built in the data state with 5 staged bytes never fed to the decoder; DecoderState::process scripted
#[cfg_attr(kani, kani::proof)]
#[cfg_attr(kani, kani::stub(std::fmt::format, crate::verif_common::stub_format))]
#[cfg_attr(kani, kani::stub(std::io::Error::is_interrupted, crate::verif_common::stub_not_interrupted))]
#[cfg_attr(kani, kani::stub(crate::decode::lzma::DecoderState::process, crate::decode::lzma::DecoderState::scripted_process))]
pub fn stream_finish_leftover_l5_strict() {
    finish_leftover::<5, false>()
}

//@ harness props=C05,C15,C12 tier=quick unwind=22 mem_gb=6 timeout=600 native=no
//@ bound: Stream::finish (allow_incomplete=false) on a stream built in the data state with 0 staged bytes never fed to the decoder; DecoderState::process scripted
#[cfg_attr(kani, kani::proof)]
#[cfg_attr(kani, kani::stub(std::fmt::format, crate::verif_common::stub_format))]
#[cfg_attr(kani, kani::stub(std::io::Error::is_interrupted, crate::verif_common::stub_not_interrupted))]
#[cfg_attr(kani, kani::stub(crate::decode::lzma::DecoderState::process, crate::decode::lzma::DecoderState::scripted_process))]
pub fn stream_finish_leftover_l0_strict() {
    finish_leftover::<0, false>()
}

//@ harness props=C05,C15,C12 tier=quick unwind=22 mem_gb=6 timeout=600 native=no
//@ bound: Stream::finish (allow_incomplete=true) on a stream built in the data state with 8 staged bytes never fed to the decoder; DecoderState::process scripted
#[cfg_attr(kani, kani::proof)]
#[cfg_attr(kani, kani::stub(std::fmt::format, crate::verif_common::stub_format))]
#[cfg_attr(kani, kani::stub(std::io::Error::is_interrupted, crate::verif_common::stub_not_interrupted))]
#[cfg_attr(kani, kani::stub(crate::decode::lzma::DecoderState::process, crate::decode::lzma::DecoderState::scripted_process))]
pub fn stream_finish_leftover_l8_allow() {
    finish_leftover::<8, true>()
}

//@ harness props=C16,C05,C15,C07,C13 tier=quick unwind=20 mem_gb=6 timeout=600 native=no
//@ bound: data arm of Stream::write (real read_data, DecoderState::process_stream scripted): 8 staged leftover bytes, write(3 bytes), no failure; then another write (and finish)
#[cfg_attr(kani, kani::proof)]
#[cfg_attr(kani, kani::stub(std::fmt::format, crate::verif_common::stub_format))]
#[cfg_attr(kani, kani::stub(std::io::Error::is_interrupted, crate::verif_common::stub_not_interrupted))]
#[cfg_attr(kani, kani::stub(crate::decode::lzma::DecoderState::process_stream, crate::decode::lzma::DecoderState::scripted_process_stream))]
pub fn stream_data_arm_glue_l8_n3_ok() {
    data_arm_glue::<8, 3, 18446744073709551615, 0, false, 1>()
}

//@ harness props=C16,C05,C15,C07 tier=quick unwind=20 mem_gb=6 timeout=600 native=no
//@ bound: data arm of Stream::write (real read_data, DecoderState::process_stream scripted): 8 staged leftover bytes, write(3 bytes), decoding the staged leftover fails (decoding error); then another write (and finish)
#[cfg_attr(kani, kani::proof)]
#[cfg_attr(kani, kani::stub(std::fmt::format, crate::verif_common::stub_format))]
#[cfg_attr(kani, kani::stub(std::io::Error::is_interrupted, crate::verif_common::stub_not_interrupted))]
#[cfg_attr(kani, kani::stub(crate::decode::lzma::DecoderState::process_stream, crate::decode::lzma::DecoderState::scripted_process_stream))]
pub fn stream_data_arm_glue_l8_n3_fail0() {
    data_arm_glue::<8, 3, 0, 0, false, 1>()
}

//@ harness props=C16,C05,C15,C07 tier=quick unwind=20 mem_gb=6 timeout=600 native=no
//@ bound: data arm of Stream::write (real read_data, DecoderState::process_stream scripted): 8 staged leftover bytes, write(3 bytes), decoding the new input fails (decoding error); then another write (and finish)
#[cfg_attr(kani, kani::proof)]
#[cfg_attr(kani, kani::stub(std::fmt::format, crate::verif_common::stub_format))]
#[cfg_attr(kani, kani::stub(std::io::Error::is_interrupted, crate::verif_common::stub_not_interrupted))]
#[cfg_attr(kani, kani::stub(crate::decode::lzma::DecoderState::process_stream, crate::decode::lzma::DecoderState::scripted_process_stream))]
pub fn stream_data_arm_glue_l8_n3_fail1() {
    data_arm_glue::<8, 3, 1, 0, false, 1>()
}

//@ harness props=C16,C05,C15,C07 tier=quick unwind=20 mem_gb=6 timeout=600 native=no
//@ bound: data arm of Stream::write (real read_data, DecoderState::process_stream scripted): 8 staged leftover bytes, write(3 bytes), the sink fails while decoding the new input (I/O error); then another write (and finish)
#[cfg_attr(kani, kani::proof)]
#[cfg_attr(kani, kani::stub(std::fmt::format, crate::verif_common::stub_format))]
#[cfg_attr(kani, kani::stub(std::io::Error::is_interrupted, crate::verif_common::stub_not_interrupted))]
#[cfg_attr(kani, kani::stub(crate::decode::lzma::DecoderState::process_stream, crate::decode::lzma::DecoderState::scripted_process_stream))]
pub fn stream_data_arm_glue_l8_n3_iofail1() {
    data_arm_glue::<8, 3, 1, 1, false, 1>()
}

//@ harness props=C16,C05,C15,C07 tier=quick unwind=20 mem_gb=6 timeout=600 native=no
//@ bound: data arm of Stream::write (real read_data, DecoderState::process_stream scripted): 0 staged leftover bytes, write(6 bytes), no leftover, the sink fails (I/O error); then another write (and finish)
#[cfg_attr(kani, kani::proof)]
#[cfg_attr(kani, kani::stub(std::fmt::format, crate::verif_common::stub_format))]
#[cfg_attr(kani, kani::stub(std::io::Error::is_interrupted, crate::verif_common::stub_not_interrupted))]
#[cfg_attr(kani, kani::stub(crate::decode::lzma::DecoderState::process_stream, crate::decode::lzma::DecoderState::scripted_process_stream))]
pub fn stream_data_arm_glue_l0_n6_iofail0() {
    data_arm_glue::<0, 6, 0, 1, false, 1>()
}

//@ harness props=C16,C05,C15,C07 tier=quick unwind=20 mem_gb=6 timeout=600 native=no
//@ bound: data arm of Stream::write (real read_data, DecoderState::process_stream scripted): 0 staged leftover bytes, write(6 bytes), allow_incomplete set, decoding fails; then another write (and finish)
#[cfg_attr(kani, kani::proof)]
#[cfg_attr(kani, kani::stub(std::fmt::format, crate::verif_common::stub_format))]
#[cfg_attr(kani, kani::stub(std::io::Error::is_interrupted, crate::verif_common::stub_not_interrupted))]
#[cfg_attr(kani, kani::stub(crate::decode::lzma::DecoderState::process_stream, crate::decode::lzma::DecoderState::scripted_process_stream))]
pub fn stream_data_arm_glue_l0_n6_fail0_allow() {
    data_arm_glue::<0, 6, 0, 0, true, 1>()
}

//@ harness props=C16,C05,C15,C07,C13 tier=quick unwind=20 mem_gb=6 timeout=600 native=no
//@ bound: data arm of Stream::write (real read_data, DecoderState::process_stream scripted): 0 staged leftover bytes, write(6 bytes), no leftover, no failure; then another write (and finish)
#[cfg_attr(kani, kani::proof)]
#[cfg_attr(kani, kani::stub(std::fmt::format, crate::verif_common::stub_format))]
#[cfg_attr(kani, kani::stub(std::io::Error::is_interrupted, crate::verif_common::stub_not_interrupted))]
#[cfg_attr(kani, kani::stub(crate::decode::lzma::DecoderState::process_stream, crate::decode::lzma::DecoderState::scripted_process_stream))]
pub fn stream_data_arm_glue_l0_n6_ok() {
    data_arm_glue::<0, 6, 18446744073709551615, 0, false, 1>()
}

//@ harness props=C16,C05,C15,C07,C13 tier=quick unwind=20 mem_gb=6 timeout=600 native=no
//@ bound: data arm of Stream::write (real read_data, DecoderState::process_stream scripted): 17 staged leftover bytes, write(1 bytes), 17 staged bytes, no failure; then another write (and finish)
#[cfg_attr(kani, kani::proof)]
#[cfg_attr(kani, kani::stub(std::fmt::format, crate::verif_common::stub_format))]
#[cfg_attr(kani, kani::stub(std::io::Error::is_interrupted, crate::verif_common::stub_not_interrupted))]
#[cfg_attr(kani, kani::stub(crate::decode::lzma::DecoderState::process_stream, crate::decode::lzma::DecoderState::scripted_process_stream))]
pub fn stream_data_arm_glue_l17_n1_ok() {
    data_arm_glue::<17, 1, 18446744073709551615, 0, false, 1>()
}

//@ harness props=C16,C05,C15,C07 tier=quick unwind=20 mem_gb=6 timeout=600 native=no
//@ bound: data arm of Stream::write (real read_data, DecoderState::process_stream scripted): 0 staged leftover bytes, write(6 bytes), decoder consumes nothing (declared size reached); then another write (and finish)
#[cfg_attr(kani, kani::proof)]
#[cfg_attr(kani, kani::stub(std::fmt::format, crate::verif_common::stub_format))]
#[cfg_attr(kani, kani::stub(std::io::Error::is_interrupted, crate::verif_common::stub_not_interrupted))]
#[cfg_attr(kani, kani::stub(crate::decode::lzma::DecoderState::process_stream, crate::decode::lzma::DecoderState::scripted_process_stream))]
pub fn stream_data_arm_glue_l0_n6_size_reached() {
    data_arm_glue::<0, 6, 18446744073709551615, 0, false, 0>()
}

//@ harness props=C16,C05,C15,C07 tier=quick unwind=20 mem_gb=6 timeout=600 native=no
//@ bound: data arm of Stream::write (real read_data, DecoderState::process_stream scripted): 4 staged leftover bytes, write(6 bytes), staged leftover, decoder consumes nothing (declared size reached); then another write (and finish)
#[cfg_attr(kani, kani::proof)]
#[cfg_attr(kani, kani::stub(std::fmt::format, crate::verif_common::stub_format))]
#[cfg_attr(kani, kani::stub(std::io::Error::is_interrupted, crate::verif_common::stub_not_interrupted))]
#[cfg_attr(kani, kani::stub(crate::decode::lzma::DecoderState::process_stream, crate::decode::lzma::DecoderState::scripted_process_stream))]
pub fn stream_data_arm_glue_l4_n6_size_reached() {
    data_arm_glue::<4, 6, 18446744073709551615, 0, false, 0>()
}


//@ harness props=C05,C15,C16,C08 tier=quick unwind=20 mem_gb=4 timeout=300 native=no
//@ bound: Stream still in the header state with k staged bytes (k symbolic in 0..=17, contents symbolic), any options: finish succeeds with empty output iff nothing at all was written; any partial header is an error (what the one-shot decoder reports as a short header)
#[cfg_attr(kani, kani::proof)]
#[cfg_attr(kani, kani::stub(std::fmt::format, crate::verif_common::stub_format))]
#[cfg_attr(kani, kani::stub(std::io::Error::is_interrupted, crate::verif_common::stub_not_interrupted))]
pub fn stream_finish_in_header_state() {
    let mut t = Tape::<32>::new();
    let staged: [u8; 18] = t.bytes::<18>();
    let k = (t.u8() % 18) as usize;
    let allow = t.bool();
    let mut s = Stream::new_with_options(&opts(allow, None), CountSink::new());
    {
        let b = s.tmp.get_mut();
        let mut i = 0;
        while i < 18 {
            b[i] = staged[i];
            i += 1;
        }
    }
    s.tmp.set_position(k as u64);
    let r = s.finish();
    let ok = r.is_ok();
    match &r {
        Ok(out) => {
            vassert!(out.bytes == 0, "finish: zero total input finishes with empty output");
        }
        Err(_) => {}
    }
    forget(r);
    vassert!(ok == (k == 0), "finish: in the header state only zero total input finishes successfully; a partial header (1..17 bytes) is an error");
    vcover!(k == 1, "one_byte_staged");
    vcover!(k == 0, "nothing_staged");
}
