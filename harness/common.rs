// Shared harness vocabulary. Injected at the crate root of a scratch copy of /repo as
// `crate::verif_common` (see vcheck). Compiles in two modes:
//   cfg(kani)          nondeterminism = kani::any(), decided by CBMC
//   cfg(verif_replay)  nondeterminism = bytes of a counterexample tape (native replay)
// Only safe code: the crate is #![forbid(unsafe_code)].
#![allow(dead_code, unused_imports, unused_variables, unused_macros, missing_docs)]

use std::io;

// ---------------------------------------------------------------------------------------
// Nondeterminism: everything is drawn from one byte array so that a CBMC trace can be
// replayed natively.
// ---------------------------------------------------------------------------------------

#[cfg(not(kani))]
pub mod native {
    use std::sync::Mutex;
    pub static TAPE: Mutex<Vec<u8>> = Mutex::new(Vec::new());
    pub fn set_tape(v: Vec<u8>) {
        *TAPE.lock().unwrap() = v;
    }
    pub fn tape<const N: usize>() -> [u8; N] {
        let t = TAPE.lock().unwrap();
        let mut out = [0u8; N];
        for i in 0..N {
            if i < t.len() {
                out[i] = t[i];
            }
        }
        out
    }
}

pub struct Tape<const N: usize> {
    pub b: [u8; N],
    pub pos: usize,
}

impl<const N: usize> Tape<N> {
    #[cfg(kani)]
    pub fn new() -> Self {
        let vtape: [u8; N] = kani::any();
        Tape { b: vtape, pos: 0 }
    }
    #[cfg(not(kani))]
    pub fn new() -> Self {
        Tape {
            b: native::tape::<N>(),
            pos: 0,
        }
    }
    #[inline(always)]
    pub fn u8(&mut self) -> u8 {
        let v = self.b[self.pos];
        self.pos += 1;
        v
    }
    pub fn bool(&mut self) -> bool {
        self.u8() & 1 == 1
    }
    pub fn u16(&mut self) -> u16 {
        let a = self.u8();
        let b = self.u8();
        u16::from_le_bytes([a, b])
    }
    pub fn u32(&mut self) -> u32 {
        let a = self.u16() as u32;
        let b = self.u16() as u32;
        a | (b << 16)
    }
    pub fn u64(&mut self) -> u64 {
        let a = self.u32() as u64;
        let b = self.u32() as u64;
        a | (b << 32)
    }
    pub fn usize(&mut self) -> usize {
        self.u64() as usize
    }
    pub fn bytes<const K: usize>(&mut self) -> [u8; K] {
        // element-wise on purpose: an array filled by memcpy is one opaque byte-update for the
        // symbolic-execution engine, and a constant stored into it afterwards is no longer
        // seen as a constant (measured: whole decoders became reachable from "concrete" headers)
        let mut out = [0u8; K];
        let mut i = 0;
        while i < K {
            out[i] = self.b[self.pos + i];
            i += 1;
        }
        self.pos += K;
        out
    }
}

#[cfg(kani)]
#[inline(always)]
pub fn assume(c: bool) {
    kani::assume(c)
}
#[cfg(not(kani))]
pub fn assume(c: bool) {
    if !c {
        println!("REPLAY-ASSUME-FAILED");
        std::process::exit(3);
    }
}

/// `vcover!(cond, "name")`: reachability witness (kani::cover!), no-op natively.
macro_rules! vcover {
    ($c:expr, $n:literal) => {{
        #[cfg(kani)]
        kani::cover!($c, $n);
        #[cfg(not(kani))]
        {
            if $c {
                println!("REPLAY-COVER {}", $n);
            }
        }
    }};
}
pub(crate) use vcover;

/// `vassert!(cond, "label")`: the label is what known-findings and evidence key on.
macro_rules! vassert {
    ($c:expr, $n:literal) => {{
        #[cfg(kani)]
        kani::assert($c, $n);
        #[cfg(not(kani))]
        {
            if !($c) {
                println!("REPLAY-ASSERT-FAILED {}", $n);
                std::process::exit(1);
            }
        }
    }};
}
pub(crate) use vassert;

/// Forget a value instead of dropping it (drop glue of io::Error / String is expensive
/// under CBMC and irrelevant to every property).
#[inline(always)]
pub fn forget<T>(t: T) {
    core::mem::forget(t)
}

// ---------------------------------------------------------------------------------------
// Readers
// ---------------------------------------------------------------------------------------

/// Read + BufRead over a fixed array; `read` is one copy of a length that is concrete
/// whenever pos/end and the destination length are.
pub struct ArrReader<const N: usize> {
    pub buf: [u8; N],
    pub pos: usize,
    pub end: usize,
    pub reads: usize,
    pub fills: usize,
}

impl<const N: usize> ArrReader<N> {
    pub fn new(buf: [u8; N], end: usize) -> Self {
        ArrReader {
            buf,
            pos: 0,
            end,
            reads: 0,
            fills: 0,
        }
    }
}

impl<const N: usize> io::Read for ArrReader<N> {
    fn read(&mut self, dst: &mut [u8]) -> io::Result<usize> {
        self.reads += 1;
        let avail = self.end - self.pos;
        let n = if dst.len() < avail { dst.len() } else { avail };
        if n == 1 {
            dst[0] = self.buf[self.pos];
        } else if n > 0 {
            dst[..n].copy_from_slice(&self.buf[self.pos..self.pos + n]);
        }
        self.pos += n;
        Ok(n)
    }
}

impl<const N: usize> io::BufRead for ArrReader<N> {
    fn fill_buf(&mut self) -> io::Result<&[u8]> {
        self.fills += 1;
        Ok(&self.buf[self.pos..self.end])
    }
    fn consume(&mut self, amt: usize) {
        self.pos += amt;
    }
}

/// ArrReader whose end of input is an observation point instead of an error path: `read_exact`
/// running out of data reaches the witness `eof_in_read_exact` and ends the path there
/// (assume(false)): the `?`-propagated error that follows is not traversed, because formatting
/// and dropping an io::Error is what the engine cannot decide. `read` / `fill_buf` reporting
/// end of input (Ok(0) / empty slice) only set `eof_seen`, so code that takes that for a
/// value keeps running and is judged by the harness assertion.
pub struct EofCutReader<const N: usize> {
    pub buf: [u8; N],
    pub pos: usize,
    pub end: usize,
    pub eof_seen: bool,
}

impl<const N: usize> EofCutReader<N> {
    pub fn new(buf: [u8; N], end: usize) -> Self {
        EofCutReader { buf, pos: 0, end, eof_seen: false }
    }
}

impl<const N: usize> io::Read for EofCutReader<N> {
    fn read(&mut self, dst: &mut [u8]) -> io::Result<usize> {
        let avail = self.end - self.pos;
        let n = if dst.len() < avail { dst.len() } else { avail };
        if n == 0 && dst.len() > 0 {
            self.eof_seen = true;
        }
        let mut i = 0;
        while i < n {
            dst[i] = self.buf[self.pos + i];
            i += 1;
        }
        self.pos += n;
        Ok(n)
    }
    fn read_exact(&mut self, dst: &mut [u8]) -> io::Result<()> {
        let avail = self.end - self.pos;
        if dst.len() > avail {
            self.eof_seen = true;
            vcover!(true, "eof_in_read_exact");
            assume(false);
        }
        let mut i = 0;
        while i < dst.len() {
            dst[i] = self.buf[self.pos + i];
            i += 1;
        }
        self.pos += dst.len();
        Ok(())
    }
}

impl<const N: usize> io::BufRead for EofCutReader<N> {
    fn fill_buf(&mut self) -> io::Result<&[u8]> {
        if self.pos == self.end {
            self.eof_seen = true;
        }
        Ok(&self.buf[self.pos..self.end])
    }
    fn consume(&mut self, amt: usize) {
        self.pos += amt;
    }
}

/// A BufRead that exposes its data in fragments chosen by `cuts` (one decision per
/// fill_buf / read call): fill_buf shows a non-empty prefix of 1 + cuts[k] % MAXF bytes of
/// what remains, read returns at most that many. Models short reads and refill patterns.
pub struct FragReader<const N: usize, const K: usize> {
    pub buf: [u8; N],
    pub pos: usize,
    pub end: usize,
    pub cuts: [u8; K],
    pub k: usize,
    pub maxf: usize,
    /// length of the fragment currently exposed by fill_buf (0 = none)
    pub cur: usize,
}

impl<const N: usize, const K: usize> FragReader<N, K> {
    pub fn new(buf: [u8; N], end: usize, cuts: [u8; K], maxf: usize) -> Self {
        FragReader {
            buf,
            pos: 0,
            end,
            cuts,
            k: 0,
            maxf,
            cur: 0,
        }
    }
    fn frag(&mut self) -> usize {
        if self.cur == 0 {
            let avail = self.end - self.pos;
            if avail == 0 {
                return 0;
            }
            let c = if self.k < K { self.cuts[self.k] } else { 0 };
            self.k += 1;
            let want = 1 + (c as usize) % self.maxf;
            self.cur = if want < avail { want } else { avail };
        }
        self.cur
    }
}

impl<const N: usize, const K: usize> io::Read for FragReader<N, K> {
    fn read(&mut self, dst: &mut [u8]) -> io::Result<usize> {
        let f = self.frag();
        let n = if dst.len() < f { dst.len() } else { f };
        let mut i = 0;
        while i < n {
            dst[i] = self.buf[self.pos + i];
            i += 1;
        }
        self.pos += n;
        self.cur -= n;
        Ok(n)
    }
}

impl<const N: usize, const K: usize> io::BufRead for FragReader<N, K> {
    fn fill_buf(&mut self) -> io::Result<&[u8]> {
        let f = self.frag();
        Ok(&self.buf[self.pos..self.pos + f])
    }
    fn consume(&mut self, amt: usize) {
        self.pos += amt;
        self.cur -= amt;
    }
}

/// A reader whose k-th call (read or fill_buf, counted together) fails.
pub struct FailReader<const N: usize> {
    pub inner: ArrReader<N>,
    pub fail_at: usize,
    pub calls: usize,
    pub failed: bool,
}

impl<const N: usize> FailReader<N> {
    pub fn new(buf: [u8; N], end: usize, fail_at: usize) -> Self {
        FailReader {
            inner: ArrReader::new(buf, end),
            fail_at,
            calls: 0,
            failed: false,
        }
    }
    fn tick(&mut self) -> bool {
        let c = self.calls;
        self.calls += 1;
        if c == self.fail_at {
            self.failed = true;
        }
        c == self.fail_at
    }
}

pub fn io_fault() -> io::Error {
    io::Error::from(io::ErrorKind::Other)
}

impl<const N: usize> io::Read for FailReader<N> {
    fn read(&mut self, dst: &mut [u8]) -> io::Result<usize> {
        if self.tick() {
            return Err(io_fault());
        }
        self.inner.read(dst)
    }
}

impl<const N: usize> io::BufRead for FailReader<N> {
    fn fill_buf(&mut self) -> io::Result<&[u8]> {
        if self.tick() {
            return Err(io_fault());
        }
        self.inner.fill_buf()
    }
    fn consume(&mut self, amt: usize) {
        self.inner.consume(amt)
    }
}

// ---------------------------------------------------------------------------------------
// Sinks
// ---------------------------------------------------------------------------------------

/// Recording sink. `write_all` is overridden: the default implementation inspects
/// io::Error internals, which is very expensive under CBMC.
pub struct RecSink<const N: usize> {
    pub buf: [u8; N],
    pub len: usize,
    pub writes: usize,
    pub flushes: usize,
    /// number of bytes present when flush was last called
    pub flushed_len: usize,
    /// set when more than N bytes were offered
    pub overflow: bool,
    /// index of the write call that fails (usize::MAX = never)
    pub fail_at: usize,
    pub failed: bool,
    /// a write happened after a failure was reported
    pub write_after_fail: bool,
    /// when non-zero, `write` accepts at most this many bytes per call (short writes)
    pub short: usize,
}

impl<const N: usize> RecSink<N> {
    pub fn new() -> Self {
        RecSink {
            buf: [0u8; N],
            len: 0,
            writes: 0,
            flushes: 0,
            flushed_len: 0,
            overflow: false,
            fail_at: usize::MAX,
            failed: false,
            write_after_fail: false,
            short: 0,
        }
    }
    pub fn failing(fail_at: usize) -> Self {
        let mut s = Self::new();
        s.fail_at = fail_at;
        s
    }
    fn put(&mut self, data: &[u8]) {
        let n = data.len();
        if self.len + n > N {
            self.overflow = true;
            return;
        }
        if n == 1 {
            self.buf[self.len] = data[0];
        } else if n > 0 {
            self.buf[self.len..self.len + n].copy_from_slice(data);
        }
        self.len += n;
    }
    fn tick(&mut self) -> bool {
        if self.failed {
            self.write_after_fail = true;
        }
        let c = self.writes;
        self.writes += 1;
        if c == self.fail_at {
            self.failed = true;
            return true;
        }
        false
    }
}

impl<const N: usize> io::Write for RecSink<N> {
    fn write(&mut self, data: &[u8]) -> io::Result<usize> {
        if self.tick() {
            return Err(io_fault());
        }
        if self.short != 0 && data.len() > self.short {
            let s = self.short;
            self.put(&data[..s]);
            return Ok(s);
        }
        self.put(data);
        Ok(data.len())
    }
    fn write_all(&mut self, data: &[u8]) -> io::Result<()> {
        if self.short != 0 {
            // honest short-write loop (bounded by data.len())
            let mut off = 0;
            while off < data.len() {
                match self.write(&data[off..]) {
                    Ok(n) => off += n,
                    Err(e) => return Err(e),
                }
            }
            return Ok(());
        }
        if self.tick() {
            return Err(io_fault());
        }
        self.put(data);
        Ok(())
    }
    fn flush(&mut self) -> io::Result<()> {
        self.flushes += 1;
        self.flushed_len = self.len;
        Ok(())
    }
}

// ---------------------------------------------------------------------------------------
// Small pure helpers shared by harnesses (reference side)
// ---------------------------------------------------------------------------------------

/// CRC-32 (ISO-HDLC, as used by xz), bitwise reference implementation over a fixed array
/// prefix; loop bounds are concrete.
pub fn ref_crc32(data: &[u8]) -> u32 {
    let mut crc: u32 = 0xFFFF_FFFF;
    let mut i = 0;
    while i < data.len() {
        crc ^= data[i] as u32;
        let mut k = 0;
        while k < 8 {
            let m = (!(crc & 1)).wrapping_add(1);
            crc = (crc >> 1) ^ (0xEDB8_8320 & m);
            k += 1;
        }
        i += 1;
    }
    !crc
}

/// CRC-64/XZ bitwise reference.
pub fn ref_crc64(data: &[u8]) -> u64 {
    let mut crc: u64 = 0xFFFF_FFFF_FFFF_FFFF;
    let mut i = 0;
    while i < data.len() {
        crc ^= data[i] as u64;
        let mut k = 0;
        while k < 8 {
            let m = (!(crc & 1)).wrapping_add(1);
            crc = (crc >> 1) ^ (0xC96C_5795_D787_0F42 & m);
            k += 1;
        }
        i += 1;
    }
    !crc
}

/// Stub for `std::fmt::format` (error messages are irrelevant to every property and
/// formatting machinery is extremely expensive under CBMC).
pub fn stub_format(_args: std::fmt::Arguments<'_>) -> String {
    String::new()
}

/// Stub for `std::io::Error::is_interrupted`: the faults injected by these harnesses are of kind
/// Other, never Interrupted; decoding io::Error's bit-packed representation is very expensive
/// under CBMC (default Write::write_all / Read::read_exact call it on every error).
pub fn stub_not_interrupted(_e: &std::io::Error) -> bool {
    false
}

/// Minimal sink with scalar fields only (a sink with arrays inside Option<State<W>> is moved
/// around by memcpy and makes the stream's state opaque to the symbolic-execution engine:
/// measured 3 s vs no answer). Keeps the first four bytes, counts bytes / calls / flushes.
pub struct CountSink {
    pub bytes: usize,
    pub writes: usize,
    pub flushes: usize,
    pub b0: u8,
    pub b1: u8,
    pub b2: u8,
    pub b3: u8,
}
impl CountSink {
    pub fn new() -> Self {
        CountSink { bytes: 0, writes: 0, flushes: 0, b0: 0, b1: 0, b2: 0, b3: 0 }
    }
    fn take(&mut self, data: &[u8]) {
        let mut i = 0;
        while i < data.len() && i < 4 {
            let k = self.bytes + i;
            if k == 0 {
                self.b0 = data[i];
            } else if k == 1 {
                self.b1 = data[i];
            } else if k == 2 {
                self.b2 = data[i];
            } else if k == 3 {
                self.b3 = data[i];
            }
            i += 1;
        }
        self.bytes += data.len();
    }
}
impl io::Write for CountSink {
    fn write(&mut self, data: &[u8]) -> io::Result<usize> {
        self.writes += 1;
        self.take(data);
        Ok(data.len())
    }
    fn write_all(&mut self, data: &[u8]) -> io::Result<()> {
        self.writes += 1;
        self.take(data);
        Ok(())
    }
    fn flush(&mut self) -> io::Result<()> {
        self.flushes += 1;
        Ok(())
    }
}

// ---------------------------------------------------------------------------------------
// Allocation observer: `vec![elem; n]` (alloc::vec::from_elem) replaced by a stub that records
// the largest element count requested, so that "no allocation out of proportion to the input"
// becomes an assertable fact. The stub returns at most 4 elements (enough for the harnesses
// that use it); what is checked is the REQUEST.
// ---------------------------------------------------------------------------------------
pub static ALLOC_MAX_REQUEST: std::sync::atomic::AtomicUsize = std::sync::atomic::AtomicUsize::new(0);

pub fn observing_from_elem<T: Clone>(elem: T, n: usize) -> Vec<T> {
    let old = ALLOC_MAX_REQUEST.load(std::sync::atomic::Ordering::Relaxed);
    if n > old {
        ALLOC_MAX_REQUEST.store(n, std::sync::atomic::Ordering::Relaxed);
    }
    let mut v: Vec<T> = Vec::with_capacity(4);
    let k = if n < 4 { n } else { 4 };
    let mut i = 0;
    while i < k {
        v.push(elem.clone());
        i += 1;
    }
    v
}
