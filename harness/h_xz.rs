// Harnesses over src/decode/xz.rs (child module). The container is decided function by
// function on the real code; files are built in fixed arrays by the harness.
#![allow(dead_code, unused_imports, unused_variables, unused_mut)]

use super::*;
use crate::verif_common::*;

pub const MAGIC: [u8; 6] = [0xFD, 0x37, 0x7A, 0x58, 0x5A, 0x00];

fn le32(b: &[u8]) -> u32 {
    u32::from_le_bytes([b[0], b[1], b[2], b[3]])
}

/// Is `f[..32]` the canonical zero-block stream for its own check byte, per the xz spec?
/// (stream header 12 bytes, index 8 bytes, footer 12 bytes)
fn zero_block_canonical(f: &[u8; 36]) -> bool {
    let mut ok = true;
    let mut i = 0;
    while i < 6 {
        ok = ok && f[i] == MAGIC[i];
        i += 1;
    }
    ok = ok && f[6] == 0;
    ok = ok && le32(&f[8..12]) == ref_crc32(&f[6..8]);
    // index: indicator, zero records, two padding bytes, crc32
    // (the count may use a non-minimal multibyte encoding of 0: the property speaks about the
    //  count's value, and the code accepts these; 80 80 80 .. would change the index size)
    let count0 = (f[13] == 0 && f[14] == 0 && f[15] == 0)
        || (f[13] == 0x80 && f[14] == 0 && f[15] == 0)
        || (f[13] == 0x80 && f[14] == 0x80 && f[15] == 0);
    ok = ok && f[12] == 0 && count0;
    ok = ok && le32(&f[16..20]) == ref_crc32(&f[12..16]);
    // footer: crc32 of (backward size, flags), backward size = index size / 4 - 1 = 1
    ok = ok && le32(&f[20..24]) == ref_crc32(&f[24..30]);
    ok = ok && le32(&f[24..28]) == 1;
    ok = ok && f[28] == f[6] && f[29] == f[7];
    ok = ok && f[30] == 0x59 && f[31] == 0x5A;
    ok
}

fn supported_check(id: u8) -> bool {
    id == 0x00 || id == 0x01 || id == 0x04
}

/// Whole-file decode of a 32..=36 byte input whose byte 12 (first block-size / index
/// indicator) is zero: every other byte is symbolic. One field group is left free per
/// instance (FREE selects it) and the rest are pinned to canonical values so each query
/// stays small; FREE = 0 frees everything in the footer, 1 the header, 2 the index.
fn xz_zero_block<const FREE: usize, const EXTRA: usize>() {
    let mut t = Tape::<48>::new();
    let mut f: [u8; 36] = t.bytes::<36>();
    let extra = EXTRA; // trailing bytes after the footer (concrete per instance)
    f[12] = 0;
    // pin the groups that are not free in this instance to canonical values
    if FREE != 1 {
        let mut i = 0;
        while i < 6 {
            f[i] = MAGIC[i];
            i += 1;
        }
        f[6] = 0;
        let c = ref_crc32(&f[6..8]).to_le_bytes();
        f[8] = c[0];
        f[9] = c[1];
        f[10] = c[2];
        f[11] = c[3];
    }
    if FREE != 2 {
        f[13] = 0;
        f[14] = 0;
        f[15] = 0;
        let c = ref_crc32(&f[12..16]).to_le_bytes();
        f[16] = c[0];
        f[17] = c[1];
        f[18] = c[2];
        f[19] = c[3];
    }
    if FREE != 0 {
        f[24] = 1;
        f[25] = 0;
        f[26] = 0;
        f[27] = 0;
        f[28] = f[6];
        f[29] = f[7];
        let c = ref_crc32(&f[24..30]).to_le_bytes();
        f[20] = c[0];
        f[21] = c[1];
        f[22] = c[2];
        f[23] = c[3];
        f[30] = 0x59;
        f[31] = 0x5A;
    }
    let mut rd = ArrReader::<36>::new(f, 32 + extra);
    let mut sink = RecSink::<4>::new();
    let r = decode_stream(&mut rd, &mut sink);
    let canon = zero_block_canonical(&f);
    let ok = r.is_ok();
    forget(r);
    if ok {
        vassert!(canon, "xz(0 blocks): Ok implies every header/index/footer field is canonical");
        vassert!(extra == 0, "xz(0 blocks): Ok implies no trailing byte");
        vassert!(supported_check(f[7]), "xz(0 blocks): Ok implies a supported check id (None, CRC32, CRC64)");
        vassert!(sink.len == 0 && sink.writes == 0, "xz(0 blocks): nothing is written");
        vassert!(rd.pos == 32, "xz(0 blocks): the whole file is consumed");
    }
    if canon && extra == 0 && supported_check(f[7]) {
        vassert!(ok, "xz(0 blocks): a canonical supported file decodes");
    }
    vcover!(ok, "accepted");
    vcover!(!ok && canon && extra > 0, "trailing_rejected");
    vcover!(!ok && canon && extra == 0, "unsupported_check_rejected");
}

//@ harness props=C03,C06,C18,C07,C11 tier=quick unwind=10 unwindset=update_table:6,default_read_exact:4 mem_gb=8 timeout=900 opt_covers=trailing_rejected
//@ bound: zero-block .xz, 32 bytes; footer (crc, backward size, flags, magic), check id and trailing bytes symbolic
#[cfg_attr(kani, kani::proof)]
#[cfg_attr(kani, kani::stub(std::fmt::format, crate::verif_common::stub_format))]
#[cfg_attr(kani, kani::stub(std::io::Error::is_interrupted, crate::verif_common::stub_not_interrupted))]
pub fn xz0_footer_free() {
    xz_zero_block::<0, 0>()
}

//@ harness props=C03,C06,C18,C07,C13 tier=quick unwind=10 unwindset=update_table:6,default_read_exact:4 mem_gb=6 timeout=600
//@ bound: StreamHeader::parse on 12 fully symbolic bytes (12 or 11 available)
#[cfg_attr(kani, kani::proof)]
#[cfg_attr(kani, kani::stub(std::fmt::format, crate::verif_common::stub_format))]
#[cfg_attr(kani, kani::stub(std::io::Error::is_interrupted, crate::verif_common::stub_not_interrupted))]
pub fn xz_stream_header_any() {
    let mut t = Tape::<16>::new();
    let f: [u8; 12] = t.bytes::<12>();
    let short = t.bool();
    let mut rd = ArrReader::<12>::new(f, if short { 11 } else { 12 });
    let r = header::StreamHeader::parse(&mut rd);
    let mut canon = true;
    let mut i = 0;
    while i < 6 {
        canon = canon && f[i] == MAGIC[i];
        i += 1;
    }
    canon = canon && f[6] == 0 && le32(&f[8..12]) == ref_crc32(&f[6..8]);
    let known_id = f[7] == 0 || f[7] == 1 || f[7] == 4 || f[7] == 0x0A;
    match &r {
        Ok(h) => {
            vassert!(!short, "xz header: Ok needs all twelve bytes");
            vassert!(canon, "xz header: Ok implies magic, null flag byte and CRC32 are right");
            vassert!(known_id, "xz header: Ok implies an assigned, known check id");
            vassert!(h.stream_flags.check_method as u8 == f[7], "xz header: check method is the flag byte");
            vassert!(rd.pos == 12, "xz header: consumes exactly twelve bytes");
            vcover!(f[7] == 4, "crc64_header");
        }
        Err(_) => {
            vassert!(short || !canon || !known_id, "xz header: a canonical header parses");
            vcover!(canon && !short, "unknown_check_id_rejected");
            vcover!(!canon, "bad_header_rejected");
        }
    }
    forget(r);
}

//@ harness props=C03,C06,C07 tier=quick unwind=10 unwindset=update_table:6,default_read_exact:4 mem_gb=8 timeout=900 opt_covers=trailing_rejected
//@ bound: zero-block .xz, 32 bytes; index (record count, padding, crc) symbolic
#[cfg_attr(kani, kani::proof)]
#[cfg_attr(kani, kani::stub(std::fmt::format, crate::verif_common::stub_format))]
#[cfg_attr(kani, kani::stub(std::io::Error::is_interrupted, crate::verif_common::stub_not_interrupted))]
pub fn xz0_index_free() {
    xz_zero_block::<2, 0>()
}

//@ harness props=C06,C18,C11,C07 tier=quick unwind=10 unwindset=update_table:6,default_read_exact:4 mem_gb=8 timeout=900 opt_covers=accepted,unsupported_check_rejected
//@ bound: zero-block .xz followed by one trailing byte (33 bytes); footer fields and check id symbolic
#[cfg_attr(kani, kani::proof)]
#[cfg_attr(kani, kani::stub(std::fmt::format, crate::verif_common::stub_format))]
#[cfg_attr(kani, kani::stub(std::io::Error::is_interrupted, crate::verif_common::stub_not_interrupted))]
pub fn xz0_trailing_byte() {
    xz_zero_block::<0, 1>()
}

//@ harness props=C18,C11 tier=quick unwind=10 unwindset=update_table:6,default_read_exact:4 mem_gb=8 timeout=900 opt_covers=accepted,unsupported_check_rejected
//@ bound: zero-block .xz followed by 4 bytes (stream padding / start of a second stream); footer fields symbolic
#[cfg_attr(kani, kani::proof)]
#[cfg_attr(kani, kani::stub(std::fmt::format, crate::verif_common::stub_format))]
#[cfg_attr(kani, kani::stub(std::io::Error::is_interrupted, crate::verif_common::stub_not_interrupted))]
pub fn xz0_trailing_four() {
    xz_zero_block::<0, 4>()
}
