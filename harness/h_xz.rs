// Harnesses over src/decode/xz.rs (child module). The container is decided function by
// function on the real code; files are built in fixed arrays by the harness.
#![allow(dead_code, unused_imports, unused_variables, unused_mut)]

use super::*;
use crate::verif_common::*;
use byteorder::ReadBytesExt as _;

pub const MAGIC: [u8; 6] = [0xFD, 0x37, 0x7A, 0x58, 0x5A, 0x00];

fn le32(b: &[u8]) -> u32 {
    u32::from_le_bytes([b[0], b[1], b[2], b[3]])
}

/// Is `f[..32]` the canonical zero-block stream for its own check byte, per the xz spec?
/// (stream header 12 bytes, index 8 bytes, footer 12 bytes)
fn zero_block_canonical(f: &[u8; 36]) -> bool {
    let mut ok = true;
    let mut i = 0;
    while i < 6 {
        ok = ok && f[i] == MAGIC[i];
        i += 1;
    }
    ok = ok && f[6] == 0;
    ok = ok && le32(&f[8..12]) == ref_crc32(&f[6..8]);
    // index: indicator, zero records, two padding bytes, crc32
    // (the count may use a non-minimal multibyte encoding of 0: the property speaks about the
    //  count's value, and the code accepts these; 80 80 80 .. would change the index size)
    let count0 = (f[13] == 0 && f[14] == 0 && f[15] == 0)
        || (f[13] == 0x80 && f[14] == 0 && f[15] == 0)
        || (f[13] == 0x80 && f[14] == 0x80 && f[15] == 0);
    ok = ok && f[12] == 0 && count0;
    ok = ok && le32(&f[16..20]) == ref_crc32(&f[12..16]);
    // footer: crc32 of (backward size, flags), backward size = index size / 4 - 1 = 1
    ok = ok && le32(&f[20..24]) == ref_crc32(&f[24..30]);
    ok = ok && le32(&f[24..28]) == 1;
    ok = ok && f[28] == f[6] && f[29] == f[7];
    ok = ok && f[30] == 0x59 && f[31] == 0x5A;
    ok
}

fn supported_check(id: u8) -> bool {
    id == 0x00 || id == 0x01 || id == 0x04
}

/// Whole-file decode of a 32..=36 byte input whose byte 12 (first block-size / index
/// indicator) is zero: every other byte is symbolic. One field group is left free per
/// instance (FREE selects it) and the rest are pinned to canonical values so each query
/// stays small; FREE = 0 frees everything in the footer, 1 the header, 2 the index.
fn xz_zero_block<const FREE: usize, const EXTRA: usize>() {
    let mut t = Tape::<48>::new();
    let mut f: [u8; 36] = t.bytes::<36>();
    let extra = EXTRA; // trailing bytes after the footer (concrete per instance)
    f[12] = 0;
    // pin the groups that are not free in this instance to canonical values
    if FREE != 1 {
        let mut i = 0;
        while i < 6 {
            f[i] = MAGIC[i];
            i += 1;
        }
        f[6] = 0;
        let c = ref_crc32(&f[6..8]).to_le_bytes();
        f[8] = c[0];
        f[9] = c[1];
        f[10] = c[2];
        f[11] = c[3];
    }
    if FREE != 2 {
        f[13] = 0;
        f[14] = 0;
        f[15] = 0;
        let c = ref_crc32(&f[12..16]).to_le_bytes();
        f[16] = c[0];
        f[17] = c[1];
        f[18] = c[2];
        f[19] = c[3];
    }
    if FREE != 0 {
        f[24] = 1;
        f[25] = 0;
        f[26] = 0;
        f[27] = 0;
        f[28] = f[6];
        f[29] = f[7];
        let c = ref_crc32(&f[24..30]).to_le_bytes();
        f[20] = c[0];
        f[21] = c[1];
        f[22] = c[2];
        f[23] = c[3];
        f[30] = 0x59;
        f[31] = 0x5A;
    }
    let mut rd = ArrReader::<36>::new(f, 32 + extra);
    let mut sink = RecSink::<4>::new();
    let r = decode_stream(&mut rd, &mut sink);
    let canon = zero_block_canonical(&f);
    let ok = r.is_ok();
    forget(r);
    if ok {
        vassert!(canon, "xz(0 blocks): Ok implies every header/index/footer field is canonical");
        vassert!(extra == 0, "xz(0 blocks): Ok implies no trailing byte");
        vassert!(supported_check(f[7]), "xz(0 blocks): Ok implies a supported check id (None, CRC32, CRC64)");
        vassert!(sink.len == 0 && sink.writes == 0, "xz(0 blocks): nothing is written");
        vassert!(rd.pos == 32, "xz(0 blocks): the whole file is consumed");
    }
    if canon && extra == 0 && supported_check(f[7]) {
        vassert!(ok, "xz(0 blocks): a canonical supported file decodes");
    }
    vcover!(ok, "accepted");
    vcover!(!ok && canon && extra > 0, "trailing_rejected");
    vcover!(!ok && canon && extra == 0, "unsupported_check_rejected");
}

//@ harness props=C03,C06,C18,C07,C11 tier=quick unwind=10 unwindset=update_table:6,default_read_exact:4 mem_gb=8 timeout=900 opt_covers=trailing_rejected
//@ bound: zero-block .xz, 32 bytes; footer (crc, backward size, flags, magic), check id and trailing bytes symbolic
#[cfg_attr(kani, kani::proof)]
#[cfg_attr(kani, kani::stub(std::fmt::format, crate::verif_common::stub_format))]
#[cfg_attr(kani, kani::stub(std::io::Error::is_interrupted, crate::verif_common::stub_not_interrupted))]
pub fn xz0_footer_free() {
    xz_zero_block::<0, 0>()
}

//@ harness props=C03,C06,C18,C07,C13 tier=quick unwind=10 unwindset=update_table:6,default_read_exact:4 mem_gb=6 timeout=600
//@ bound: StreamHeader::parse on 12 fully symbolic bytes (12 or 11 available)
#[cfg_attr(kani, kani::proof)]
#[cfg_attr(kani, kani::stub(std::fmt::format, crate::verif_common::stub_format))]
#[cfg_attr(kani, kani::stub(std::io::Error::is_interrupted, crate::verif_common::stub_not_interrupted))]
pub fn xz_stream_header_any() {
    let mut t = Tape::<16>::new();
    let f: [u8; 12] = t.bytes::<12>();
    let short = t.bool();
    let mut rd = ArrReader::<12>::new(f, if short { 11 } else { 12 });
    let r = header::StreamHeader::parse(&mut rd);
    let mut canon = true;
    let mut i = 0;
    while i < 6 {
        canon = canon && f[i] == MAGIC[i];
        i += 1;
    }
    canon = canon && f[6] == 0 && le32(&f[8..12]) == ref_crc32(&f[6..8]);
    let known_id = f[7] == 0 || f[7] == 1 || f[7] == 4 || f[7] == 0x0A;
    match &r {
        Ok(h) => {
            vassert!(!short, "xz header: Ok needs all twelve bytes");
            vassert!(canon, "xz header: Ok implies magic, null flag byte and CRC32 are right");
            vassert!(known_id, "xz header: Ok implies an assigned, known check id");
            vassert!(h.stream_flags.check_method as u8 == f[7], "xz header: check method is the flag byte");
            vassert!(rd.pos == 12, "xz header: consumes exactly twelve bytes");
            vcover!(f[7] == 4, "crc64_header");
        }
        Err(_) => {
            vassert!(short || !canon || !known_id, "xz header: a canonical header parses");
            vcover!(canon && !short, "unknown_check_id_rejected");
            vcover!(!canon, "bad_header_rejected");
        }
    }
    forget(r);
}

//@ harness props=C03,C06,C07 tier=quick unwind=10 unwindset=update_table:6,default_read_exact:4 mem_gb=8 timeout=900 opt_covers=trailing_rejected
//@ bound: zero-block .xz, 32 bytes; index (record count, padding, crc) symbolic
#[cfg_attr(kani, kani::proof)]
#[cfg_attr(kani, kani::stub(std::fmt::format, crate::verif_common::stub_format))]
#[cfg_attr(kani, kani::stub(std::io::Error::is_interrupted, crate::verif_common::stub_not_interrupted))]
pub fn xz0_index_free() {
    xz_zero_block::<2, 0>()
}

//@ harness props=C06,C18,C11,C07,C13 tier=quick unwind=10 unwindset=update_table:6,default_read_exact:4 mem_gb=8 timeout=900 opt_covers=accepted,unsupported_check_rejected
//@ bound: zero-block .xz followed by one trailing byte (33 bytes); footer fields and check id symbolic
#[cfg_attr(kani, kani::proof)]
#[cfg_attr(kani, kani::stub(std::fmt::format, crate::verif_common::stub_format))]
#[cfg_attr(kani, kani::stub(std::io::Error::is_interrupted, crate::verif_common::stub_not_interrupted))]
pub fn xz0_trailing_byte() {
    xz_zero_block::<0, 1>()
}

//@ harness props=C18,C11,C13 tier=quick unwind=10 unwindset=update_table:6,default_read_exact:4 mem_gb=8 timeout=900 opt_covers=accepted,unsupported_check_rejected
//@ bound: zero-block .xz followed by 4 bytes (stream padding / start of a second stream); footer fields symbolic
#[cfg_attr(kani, kani::proof)]
#[cfg_attr(kani, kani::stub(std::fmt::format, crate::verif_common::stub_format))]
#[cfg_attr(kani, kani::stub(std::io::Error::is_interrupted, crate::verif_common::stub_not_interrupted))]
pub fn xz0_trailing_four() {
    xz_zero_block::<0, 4>()
}

// ---------------------------------------------------------------------------------------
// Block-level units (the block path is decided function by function; see DESIGN C03)
// ---------------------------------------------------------------------------------------

//@ harness props=C03,C06,C07,C13 tier=quick unwind=12 unwindset=default_read_exact:4 mem_gb=4 timeout=600
//@ bound: get_multibyte on 10 fully symbolic bytes (all 1..9-byte encodings, over-long input)
#[cfg_attr(kani, kani::proof)]
#[cfg_attr(kani, kani::stub(std::fmt::format, crate::verif_common::stub_format))]
#[cfg_attr(kani, kani::stub(std::io::Error::is_interrupted, crate::verif_common::stub_not_interrupted))]
pub fn xzblk_multibyte_any() {
    let mut t = Tape::<16>::new();
    let f: [u8; 10] = t.bytes::<10>();
    let mut rd = ArrReader::<10>::new(f, 10);
    let r = get_multibyte(&mut rd);
    // specification: little-endian base-128, at most 9 bytes
    let mut val: u64 = 0;
    let mut used = 0usize;
    let mut done = false;
    let mut i = 0;
    while i < 9 {
        if !done {
            val |= ((f[i] & 0x7F) as u64) << (7 * i);
            used = i + 1;
            if f[i] & 0x80 == 0 {
                done = true;
            }
        }
        i += 1;
    }
    match &r {
        Ok(v) => {
            vassert!(done, "multibyte: Ok needs a terminating byte within nine bytes");
            vassert!(*v == val, "multibyte: value = sum of 7-bit groups, least significant first");
            vassert!(rd.pos == used, "multibyte: consumes exactly the encoding");
            vcover!(used == 9, "nine_byte_encoding");
            vcover!(used == 1, "one_byte_encoding");
        }
        Err(_) => {
            vassert!(!done, "multibyte: Err only for nine continuation bytes");
            vcover!(true, "overlong_rejected");
        }
    }
    forget(r);
}

/// read_block_header called directly on a block header body (everything after the size byte,
/// before the CRC). Layout concrete per instance: FLAGS (bits 6/7 = size fields present,
/// low bits = filters-1, reserved 0x3C), one-byte multibytes; field VALUES symbolic.
fn block_header_unit<const FLAGS: u8, const PAD: usize>() {
    let mut t = Tape::<32>::new();
    let packed = t.u8() & 0x7F;
    let unpacked = t.u8() & 0x7F;
    let fid = t.u8() & 0x7F;
    let psize = 1u8; // size of filter properties (concrete: it sizes an allocation and a read)
    let prop = t.u8();
    let mut f = [0u8; 24];
    let mut n = 0usize;
    f[n] = FLAGS;
    n += 1;
    if FLAGS & 0x40 != 0 {
        f[n] = packed;
        n += 1;
    }
    if FLAGS & 0x80 != 0 {
        f[n] = unpacked;
        n += 1;
    }
    f[n] = fid;
    f[n + 1] = psize;
    f[n + 2] = prop;
    n += 3;
    let mut k = 0;
    while k < PAD {
        f[n] = t.u8();
        n += 1;
        k += 1;
    }
    let mut rd = ArrReader::<24>::new(f, n);
    let r = read_block_header(&mut rd, (n + 1) as u64);
    let mut pad_zero = true;
    let mut k2 = 0;
    while k2 < PAD {
        if f[n - 1 - k2] != 0 {
            pad_zero = false;
        }
        k2 += 1;
    }
    let supported = (FLAGS & 0x3C) == 0 && (FLAGS & 0x03) == 0 && fid == 0x21;
    match &r {
        Ok(h) => {
            vassert!((FLAGS & 0x3C) == 0, "block header: reserved flag bits are refused");
            vassert!(fid == 0x21, "block header: only the LZMA2 filter id is accepted");
            vassert!(pad_zero, "block header: padding must be zero");
            vassert!(h.packed_size == if FLAGS & 0x40 != 0 { Some(packed as u64) } else { None }, "block header: compressed size field");
            vassert!(h.unpacked_size == if FLAGS & 0x80 != 0 { Some(unpacked as u64) } else { None }, "block header: uncompressed size field");
            vassert!(h.filters.len() == 1 && h.filters[0].props.len() == 1 && h.filters[0].props[0] == prop, "block header: one filter with its property byte");
            vassert!(rd.pos == n, "block header: whole header consumed");
            vcover!(true, "bh_ok");
        }
        Err(_) => {
            vassert!(!(supported && pad_zero), "block header: a well-formed supported header parses");
            vcover!(fid != 0x21 && (FLAGS & 0x3C) == 0, "unknown_filter_rejected");
            vcover!(!pad_zero && fid == 0x21, "nonzero_padding_rejected");
        }
    }
    forget(r);
    vcover!(true, "end_reached");
}

fn one_record_index<const PADOK: bool>() {
    let mut t = Tape::<32>::new();
    let cnt = t.u8() & 0x7F;
    let u = t.u8() & 0x7F;
    let v = t.u8() & 0x7F;
    // the decoded block's sizes are arbitrary 64-bit values (the index bytes below stay
    // one-byte multibyte integers, so only values < 128 can match)
    let ru = t.u64();
    let rv = t.u64();
    // PADOK = true: fields symbolic, CRC32 field computed by the harness (always right);
    // PADOK = false: fields pinned to the record, CRC32 field symbolic. (Both symbolic at once
    // asks the solver to invert a table-driven CRC: 34 M clauses, out of memory at 8 GB.)
    let (cnt, u, v) = if PADOK { (cnt, u, v) } else { (1u8, (ru & 0x7F) as u8, (rv & 0x7F) as u8) };
    let crc = if PADOK { ref_crc32(&[0u8, cnt, u, v]) } else { t.u32() };
    let c = crc.to_le_bytes();
    let f = [0u8, cnt, u, v, c[0], c[1], c[2], c[3], 0xEE];
    let mut rd = ArrReader::<9>::new(f, 9);
    // `as _`: the harness must keep compiling if the record fields change width (a narrower type is
    // exactly the kind of change the assertions below have to catch)
    let records = vec![Record { unpadded_size: ru as _, unpacked_size: rv as _ }];
    let (ok, count) = {
        let mut ci = util::CountBufRead::new(&mut rd);
        let ind = ci.read_u8();
        forget(ind);
        let r = check_index(&mut ci, &records);
        let ok = r.is_ok();
        forget(r);
        (ok, ci.count())
    };
    let canon = cnt == 1 && u as u64 == ru && v as u64 == rv && crc == ref_crc32(&f[0..4]);
    vassert!(ok == canon, "index: accepted iff record count, both sizes and the CRC32 agree with the decoded block");
    if ok {
        vassert!(count == 8 && rd.pos == 8, "index: size counted = indicator + records + padding + CRC; nothing beyond it is read");
    }
    vcover!(ok, "index_ok");
    vcover!(!ok && cnt == 1 && u as u64 == ru && v as u64 == rv, "index_crc_rejected");
    forget(records);
}

/// validate_block_check on N symbolic payload bytes and a symbolic check field.
fn block_check_unit<const N: usize, const METHOD: u8>() {
    let mut t = Tape::<32>::new();
    let data: [u8; N] = t.bytes::<N>();
    let field: [u8; 8] = t.bytes::<8>();
    let mut rd = ArrReader::<8>::new(field, 8);
    let m = match METHOD {
        0 => CheckMethod::None,
        1 => CheckMethod::Crc32,
        4 => CheckMethod::Crc64,
        _ => CheckMethod::Sha256,
    };
    let r = validate_block_check(&mut rd, &data[..], m);
    let ok = r.is_ok();
    forget(r);
    match METHOD {
        0 => {
            vassert!(ok && rd.pos == 0, "block check: None reads nothing and accepts");
        }
        1 => {
            let want = ref_crc32(&data[..]);
            vassert!(ok == (u32::from_le_bytes([field[0], field[1], field[2], field[3]]) == want), "block check: CRC32 accepted iff it is the CRC32 of the block's data");
            vassert!(rd.pos == 4, "block check: CRC32 field is four bytes");
        }
        4 => {
            let want = ref_crc64(&data[..]);
            vassert!(ok == (u64::from_le_bytes(field) == want), "block check: CRC64 accepted iff it is the CRC64 of the block's data");
            vassert!(rd.pos == 8, "block check: CRC64 field is eight bytes");
        }
        _ => {
            vassert!(!ok, "block check: SHA-256 is refused");
        }
    }
    vcover!(ok, "check_ok");
    vcover!(!ok, "check_rejected");
}

//@ harness props=C03,C06,C18,C07 tier=quick unwind=8 unwindset=default_read_exact:4,flush_zero_padding:10,block_header_unit:10 mem_gb=6 timeout=600
//@ bound: read_block_header directly: flags 0x00 (concrete layout), 3 padding bytes; size values, filter id (<0x80), property byte and padding bytes symbolic
#[cfg_attr(kani, kani::proof)]
#[cfg_attr(kani, kani::stub(std::fmt::format, crate::verif_common::stub_format))]
#[cfg_attr(kani, kani::stub(std::io::Error::is_interrupted, crate::verif_common::stub_not_interrupted))]
pub fn xzblk_header_f00_p3() {
    block_header_unit::<0, 3>()
}

//@ harness props=C03,C06,C18,C07 tier=quick unwind=8 unwindset=default_read_exact:4,flush_zero_padding:10,block_header_unit:10 mem_gb=6 timeout=600
//@ bound: read_block_header directly: flags 0xc0 (concrete layout), 1 padding bytes; size values, filter id (<0x80), property byte and padding bytes symbolic
#[cfg_attr(kani, kani::proof)]
#[cfg_attr(kani, kani::stub(std::fmt::format, crate::verif_common::stub_format))]
#[cfg_attr(kani, kani::stub(std::io::Error::is_interrupted, crate::verif_common::stub_not_interrupted))]
pub fn xzblk_header_fc0_p1() {
    block_header_unit::<192, 1>()
}

//@ harness props=C03,C06,C18,C07 tier=quick unwind=8 unwindset=default_read_exact:4,flush_zero_padding:10,block_header_unit:10 mem_gb=6 timeout=600
//@ bound: read_block_header directly: flags 0x40 (concrete layout), 2 padding bytes; size values, filter id (<0x80), property byte and padding bytes symbolic
#[cfg_attr(kani, kani::proof)]
#[cfg_attr(kani, kani::stub(std::fmt::format, crate::verif_common::stub_format))]
#[cfg_attr(kani, kani::stub(std::io::Error::is_interrupted, crate::verif_common::stub_not_interrupted))]
pub fn xzblk_header_f40_p2() {
    block_header_unit::<64, 2>()
}

//@ harness props=C03,C06,C18,C07 tier=quick unwind=8 unwindset=default_read_exact:4,flush_zero_padding:10,block_header_unit:10 mem_gb=6 timeout=600
//@ bound: read_block_header directly: flags 0x80 (concrete layout), 6 padding bytes; size values, filter id (<0x80), property byte and padding bytes symbolic
#[cfg_attr(kani, kani::proof)]
#[cfg_attr(kani, kani::stub(std::fmt::format, crate::verif_common::stub_format))]
#[cfg_attr(kani, kani::stub(std::io::Error::is_interrupted, crate::verif_common::stub_not_interrupted))]
pub fn xzblk_header_f80_p6() {
    block_header_unit::<128, 6>()
}

//@ harness props=C03,C06,C18,C07 tier=quick unwind=8 unwindset=default_read_exact:4,flush_zero_padding:10,block_header_unit:10 mem_gb=6 timeout=600 opt_covers=bh_ok,unknown_filter_rejected,nonzero_padding_rejected
//@ bound: read_block_header directly: flags 0x04 (concrete layout), 3 padding bytes; size values, filter id (<0x80), property byte and padding bytes symbolic
#[cfg_attr(kani, kani::proof)]
#[cfg_attr(kani, kani::stub(std::fmt::format, crate::verif_common::stub_format))]
#[cfg_attr(kani, kani::stub(std::io::Error::is_interrupted, crate::verif_common::stub_not_interrupted))]
pub fn xzblk_header_f04_p3() {
    block_header_unit::<4, 3>()
}

//@ harness props=C03,C06,C18,C07 tier=quick unwind=8 unwindset=default_read_exact:4,flush_zero_padding:10,block_header_unit:10 mem_gb=6 timeout=600 opt_covers=bh_ok,unknown_filter_rejected,nonzero_padding_rejected
//@ bound: read_block_header directly: flags 0x20 (concrete layout), 3 padding bytes; size values, filter id (<0x80), property byte and padding bytes symbolic
#[cfg_attr(kani, kani::proof)]
#[cfg_attr(kani, kani::stub(std::fmt::format, crate::verif_common::stub_format))]
#[cfg_attr(kani, kani::stub(std::io::Error::is_interrupted, crate::verif_common::stub_not_interrupted))]
pub fn xzblk_header_f20_p3() {
    block_header_unit::<32, 3>()
}


//@ harness props=C03,C06,C07 tier=quick unwind=10 unwindset=default_read_exact:4,update_table:6 mem_gb=12 timeout=900 opt_covers=index_crc_rejected
//@ bound: check_index directly with one record (symbolic 64-bit sizes): count / unpadded / uncompressed bytes (< 0x80) symbolic, CRC32 recomputed
#[cfg_attr(kani, kani::proof)]
#[cfg_attr(kani, kani::stub(std::fmt::format, crate::verif_common::stub_format))]
#[cfg_attr(kani, kani::stub(std::io::Error::is_interrupted, crate::verif_common::stub_not_interrupted))]
pub fn xzblk_index_one_record() {
    one_record_index::<true>()
}

//@ harness props=C03,C06,C18,C07 tier=quick unwind=12 unwindset=default_read_exact:4,update_table:6,update_slice16:6 mem_gb=8 timeout=900 opt_covers=check_rejected
//@ bound: validate_block_check(none) on 0 symbolic data bytes against a symbolic 8-byte check field
#[cfg_attr(kani, kani::proof)]
#[cfg_attr(kani, kani::stub(std::fmt::format, crate::verif_common::stub_format))]
#[cfg_attr(kani, kani::stub(std::io::Error::is_interrupted, crate::verif_common::stub_not_interrupted))]
pub fn xzblk_check_none() {
    block_check_unit::<0, 0>()
}

//@ harness props=C03,C06,C18,C07 tier=quick unwind=12 unwindset=default_read_exact:4,update_table:6,update_slice16:6 mem_gb=8 timeout=900
//@ bound: validate_block_check(crc32) on 2 symbolic data bytes against a symbolic 8-byte check field
#[cfg_attr(kani, kani::proof)]
#[cfg_attr(kani, kani::stub(std::fmt::format, crate::verif_common::stub_format))]
#[cfg_attr(kani, kani::stub(std::io::Error::is_interrupted, crate::verif_common::stub_not_interrupted))]
pub fn xzblk_check_crc32() {
    block_check_unit::<2, 1>()
}

//@ harness props=C03,C06,C18,C07 tier=quick unwind=12 unwindset=default_read_exact:4,update_table:6,update_slice16:6 mem_gb=8 timeout=900
//@ bound: validate_block_check(crc64) on 1 symbolic data bytes against a symbolic 8-byte check field
#[cfg_attr(kani, kani::proof)]
#[cfg_attr(kani, kani::stub(std::fmt::format, crate::verif_common::stub_format))]
#[cfg_attr(kani, kani::stub(std::io::Error::is_interrupted, crate::verif_common::stub_not_interrupted))]
pub fn xzblk_check_crc64() {
    block_check_unit::<1, 4>()
}

//@ harness props=C03,C06,C18,C07 tier=quick unwind=12 unwindset=default_read_exact:4,update_table:6,update_slice16:6 mem_gb=8 timeout=900 opt_covers=check_ok
//@ bound: validate_block_check(sha256) on 2 symbolic data bytes against a symbolic 8-byte check field
#[cfg_attr(kani, kani::proof)]
#[cfg_attr(kani, kani::stub(std::fmt::format, crate::verif_common::stub_format))]
#[cfg_attr(kani, kani::stub(std::io::Error::is_interrupted, crate::verif_common::stub_not_interrupted))]
pub fn xzblk_check_sha256() {
    block_check_unit::<2, 10>()
}

//@ harness props=C03,C06,C18,C07 tier=quick unwind=12 unwindset=default_read_exact:4,update_table:6,update_slice16:6 mem_gb=8 timeout=900
//@ bound: validate_block_check(crc32_empty) on 0 symbolic data bytes against a symbolic 8-byte check field
#[cfg_attr(kani, kani::proof)]
#[cfg_attr(kani, kani::stub(std::fmt::format, crate::verif_common::stub_format))]
#[cfg_attr(kani, kani::stub(std::io::Error::is_interrupted, crate::verif_common::stub_not_interrupted))]
pub fn xzblk_check_crc32_empty() {
    block_check_unit::<0, 1>()
}

//@ harness props=C03,C06,C07 tier=quick unwind=10 unwindset=default_read_exact:4,update_table:6 mem_gb=12 timeout=900
//@ bound: check_index directly with one record, fields equal to the record, CRC32 field symbolic
#[cfg_attr(kani, kani::proof)]
#[cfg_attr(kani, kani::stub(std::fmt::format, crate::verif_common::stub_format))]
#[cfg_attr(kani, kani::stub(std::io::Error::is_interrupted, crate::verif_common::stub_not_interrupted))]
pub fn xzblk_index_one_record_crc() {
    one_record_index::<false>()
}

// ---------------------------------------------------------------------------------------
// read_block as a whole, on a concrete layout: block header (size byte HS, flags 0, filter
// 0x21, one property byte, zero padding, CRC32), an LZMA2 payload made of one uncompressed chunk
// with 2 symbolic bytes, block padding, no check. DEV selects one concrete deviation.
//   0 none | 1 header CRC wrong | 2 block padding byte non-zero | 3 header padding non-zero
// ---------------------------------------------------------------------------------------
fn read_block_unit<const HS: usize, const DEV: usize>() {
    let mut t = Tape::<16>::new();
    let d0 = t.u8();
    let d1 = t.u8();
    let hlen = HS * 4; // header bytes before the CRC (including the size byte)
    let mut f = [0u8; 300];
    f[0] = HS as u8;
    f[1] = 0x00;
    f[2] = 0x21;
    f[3] = 0x01;
    f[4] = 0x16;
    if DEV == 3 {
        f[6] = 1;
    }
    let c = ref_crc32(&f[0..hlen]).to_le_bytes();
    f[hlen] = c[0] ^ (if DEV == 1 { 1 } else { 0 });
    f[hlen + 1] = c[1];
    f[hlen + 2] = c[2];
    f[hlen + 3] = c[3];
    let p = hlen + 4;
    // LZMA2: uncompressed chunk with dictionary reset, 2 bytes, then end
    f[p] = 1;
    f[p + 1] = 0;
    f[p + 2] = 1;
    f[p + 3] = d0;
    f[p + 4] = d1;
    f[p + 5] = 0;
    // unpadded size = hlen + 4 + 6 ; padding to a multiple of four
    let unpadded = hlen + 10;
    let pad = (4 - unpadded % 4) % 4;
    if DEV == 2 {
        f[p + 6] = 7;
    }
    let total = unpadded + pad;
    f[total] = 0xEE; // next byte (index indicator in a real file): must stay unread
    let mut rd = ArrReader::<300>::new(f, total + 1);
    let mut sink = RecSink::<4>::new();
    let mut records: Vec<Record> = Vec::with_capacity(2);
    let (ok, counted) = {
        let mut ci = util::CountBufRead::new(&mut rd);
        let hb = ci.read_u8();
        forget(hb);
        let r = read_block(&mut ci, &mut sink, CheckMethod::None, &mut records, HS as u8);
        let ok = r.is_ok();
        forget(r);
        (ok, ci.count())
    };
    if DEV == 0 {
        vassert!(ok, "read_block: a well-formed block decodes");
        vassert!(sink.len == 2 && sink.buf[0] == d0 && sink.buf[1] == d1, "read_block: the block's content is written to the output");
        vassert!(records.len() == 1, "read_block: one index record per block");
        vassert!(records[0].unpadded_size as u64 == unpadded as u64 && records[0].unpacked_size as u64 == 2, "read_block: record = unpadded block size and uncompressed size");
        vassert!(counted == total && rd.pos == total, "read_block: consumes header, payload and padding, nothing more");
    } else {
        vassert!(!ok, "read_block: a wrong header CRC / non-zero padding is rejected");
        vassert!(sink.len == 0, "read_block: nothing is written for a rejected block");
    }
    vcover!(true, "end_reached");
    forget(records);
}

//@ harness props=C03,C06,C07 tier=thorough optional=yes unwind=6 unwindset=update_table:300,ref_crc32.0:10,ref_crc32.1:300,default_read_exact:4,flush_zero_padding:4,decompress:4,spec_fill:8200,read_block_unit:6 mem_gb=12 timeout=900 native=no cbmc=--max-field-sensitivity-array-size;512
//@ bound: read_block as a whole on a concrete layout: header size byte 3, one uncompressed LZMA2 chunk of 2 symbolic bytes, check None; well-formed
#[cfg_attr(kani, kani::proof)]
#[cfg_attr(kani, kani::stub(std::fmt::format, crate::verif_common::stub_format))]
#[cfg_attr(kani, kani::stub(std::io::Error::is_interrupted, crate::verif_common::stub_not_interrupted))]
#[cfg_attr(kani, kani::stub(crate::decode::lzma::DecoderState::new, crate::decode::stream::verif_h::new_scripted_lit))]
#[cfg_attr(kani, kani::stub(crate::decode::lzbuffer::LzAccumBuffer::from_stream, crate::decode::lzbuffer::verif_h::accum_from_stream_with_capacity))]
pub fn xzblk_read_block_hs3_dev0() {
    read_block_unit::<3, 0>()
}

//@ harness props=C03,C06,C07 tier=thorough optional=yes unwind=6 unwindset=update_table:300,ref_crc32.0:10,ref_crc32.1:300,default_read_exact:4,flush_zero_padding:4,decompress:4,spec_fill:8200,read_block_unit:6 mem_gb=12 timeout=900 native=no cbmc=--max-field-sensitivity-array-size;512
//@ bound: read_block as a whole on a concrete layout: header size byte 3, one uncompressed LZMA2 chunk of 2 symbolic bytes, check None; header CRC32 off by one bit
#[cfg_attr(kani, kani::proof)]
#[cfg_attr(kani, kani::stub(std::fmt::format, crate::verif_common::stub_format))]
#[cfg_attr(kani, kani::stub(std::io::Error::is_interrupted, crate::verif_common::stub_not_interrupted))]
#[cfg_attr(kani, kani::stub(crate::decode::lzma::DecoderState::new, crate::decode::stream::verif_h::new_scripted_lit))]
#[cfg_attr(kani, kani::stub(crate::decode::lzbuffer::LzAccumBuffer::from_stream, crate::decode::lzbuffer::verif_h::accum_from_stream_with_capacity))]
pub fn xzblk_read_block_hs3_dev1() {
    read_block_unit::<3, 1>()
}

//@ harness props=C03,C06,C07 tier=thorough optional=yes unwind=6 unwindset=update_table:300,ref_crc32.0:10,ref_crc32.1:300,default_read_exact:4,flush_zero_padding:4,decompress:4,spec_fill:8200,read_block_unit:6 mem_gb=12 timeout=900 native=no cbmc=--max-field-sensitivity-array-size;512
//@ bound: read_block as a whole on a concrete layout: header size byte 3, one uncompressed LZMA2 chunk of 2 symbolic bytes, check None; non-zero block padding byte
#[cfg_attr(kani, kani::proof)]
#[cfg_attr(kani, kani::stub(std::fmt::format, crate::verif_common::stub_format))]
#[cfg_attr(kani, kani::stub(std::io::Error::is_interrupted, crate::verif_common::stub_not_interrupted))]
#[cfg_attr(kani, kani::stub(crate::decode::lzma::DecoderState::new, crate::decode::stream::verif_h::new_scripted_lit))]
#[cfg_attr(kani, kani::stub(crate::decode::lzbuffer::LzAccumBuffer::from_stream, crate::decode::lzbuffer::verif_h::accum_from_stream_with_capacity))]
pub fn xzblk_read_block_hs3_dev2() {
    read_block_unit::<3, 2>()
}

//@ harness props=C03,C06,C07 tier=thorough optional=yes unwind=6 unwindset=update_table:300,ref_crc32.0:10,ref_crc32.1:300,default_read_exact:4,flush_zero_padding:4,decompress:4,spec_fill:8200,read_block_unit:6 mem_gb=12 timeout=900 native=no cbmc=--max-field-sensitivity-array-size;512
//@ bound: read_block as a whole on a concrete layout: header size byte 3, one uncompressed LZMA2 chunk of 2 symbolic bytes, check None; non-zero header padding byte
#[cfg_attr(kani, kani::proof)]
#[cfg_attr(kani, kani::stub(std::fmt::format, crate::verif_common::stub_format))]
#[cfg_attr(kani, kani::stub(std::io::Error::is_interrupted, crate::verif_common::stub_not_interrupted))]
#[cfg_attr(kani, kani::stub(crate::decode::lzma::DecoderState::new, crate::decode::stream::verif_h::new_scripted_lit))]
#[cfg_attr(kani, kani::stub(crate::decode::lzbuffer::LzAccumBuffer::from_stream, crate::decode::lzbuffer::verif_h::accum_from_stream_with_capacity))]
pub fn xzblk_read_block_hs3_dev3() {
    read_block_unit::<3, 3>()
}

//@ harness props=C03,C06,C07 tier=thorough optional=yes unwind=6 unwindset=update_table:300,ref_crc32.0:10,ref_crc32.1:300,default_read_exact:4,flush_zero_padding:4,decompress:4,spec_fill:8200,read_block_unit:6 mem_gb=12 timeout=900 native=no cbmc=--max-field-sensitivity-array-size;512
//@ bound: read_block as a whole on a concrete layout: header size byte 64, one uncompressed LZMA2 chunk of 2 symbolic bytes, check None; well-formed, 256-byte block header (size byte 0x40)
#[cfg_attr(kani, kani::proof)]
#[cfg_attr(kani, kani::stub(std::fmt::format, crate::verif_common::stub_format))]
#[cfg_attr(kani, kani::stub(std::io::Error::is_interrupted, crate::verif_common::stub_not_interrupted))]
#[cfg_attr(kani, kani::stub(crate::decode::lzma::DecoderState::new, crate::decode::stream::verif_h::new_scripted_lit))]
#[cfg_attr(kani, kani::stub(crate::decode::lzbuffer::LzAccumBuffer::from_stream, crate::decode::lzbuffer::verif_h::accum_from_stream_with_capacity))]
pub fn xzblk_read_block_hs64_dev0() {
    read_block_unit::<64, 0>()
}

// ---------------------------------------------------------------------------------------
// read_block with the header PARSER replaced by its contract (it is decided on its own in
// xzblk_header_*): the stub drains the header bytes through the real BufReader / CrcDigestRead /
// Take nesting (so the header CRC is computed by the real code over the real bytes) and returns
// the fields the harness scripted through two atomics. Everything else in read_block is real:
// header-size arithmetic, header CRC comparison, LZMA2 payload decode, compressed / uncompressed
// size comparisons, block padding, check call, output write, index record.
// ---------------------------------------------------------------------------------------
use std::sync::atomic::{AtomicU64, Ordering};
pub static BH_PACKED: AtomicU64 = AtomicU64::new(u64::MAX);
pub static BH_UNPACKED: AtomicU64 = AtomicU64::new(u64::MAX);
/// 1 = the size fields are present (concrete per instance: a symbolic Option discriminant in
/// the returned header made the query time out)
pub static BH_PRESENT: AtomicU64 = AtomicU64::new(0);

pub fn scripted_block_header<R: io::BufRead>(input: &mut R, _header_size: u64) -> error::Result<BlockHeader> {
    // drain: at most two refills for the sizes used here
    let mut rounds = 0;
    while rounds < 3 {
        let n = match input.fill_buf() {
            Ok(b) => b.len(),
            Err(e) => return Err(error::Error::IoError(e)),
        };
        if n == 0 {
            break;
        }
        input.consume(n);
        rounds += 1;
    }
    let p = BH_PACKED.load(Ordering::Relaxed);
    let u = BH_UNPACKED.load(Ordering::Relaxed);
    let mut filters: Vec<Filter> = Vec::with_capacity(1);
    let mut props: Vec<u8> = Vec::with_capacity(1);
    props.push(0x16);
    filters.push(Filter { filter_id: FilterId::Lzma2, props });
    Ok(BlockHeader {
        filters,
        packed_size: if BH_PRESENT.load(Ordering::Relaxed) == 1 { Some(p) } else { None },
        unpacked_size: if BH_PRESENT.load(Ordering::Relaxed) == 1 { Some(u) } else { None },
    })
}

/// HS: header size byte. Symbolic: declared compressed / uncompressed sizes (or absent), the
/// header CRC field, the block padding bytes, the two payload bytes, check = None or CRC32 field.
fn read_block_fields<const HS: usize, const CHECK: u8, const SYM: u8, const N: usize>() {
    let mut t = Tape::<48>::new();
    let d0 = t.u8();
    let d1 = t.u8();
    let packed_s = t.u64();
    let unpacked_s = t.u64();
    let crc_s = t.u32();
    let pad_s = [t.u8(), t.u8(), t.u8()];
    // one field group symbolic per instance (SYM: 1 header CRC, 2 declared sizes, 3 block padding, 4 all)
    let packed = if SYM == 2 || SYM == 4 { packed_s } else { u64::MAX };
    let unpacked = if SYM == 2 || SYM == 4 { unpacked_s } else { u64::MAX };
    let padb = if SYM == 3 || SYM == 4 { pad_s } else { [0u8, 0, 0] };
    let chk = [t.u8(), t.u8(), t.u8(), t.u8()];
    BH_PACKED.store(packed, Ordering::Relaxed);
    BH_UNPACKED.store(unpacked, Ordering::Relaxed);
    let present = SYM == 2 || SYM == 4;
    BH_PRESENT.store(if present { 1 } else { 0 }, Ordering::Relaxed);
    let hlen = HS * 4;
    let mut f = [0u8; N];
    f[0] = HS as u8;
    f[1] = 0x00;
    f[2] = 0x21;
    f[3] = 0x01;
    f[4] = 0x16;
    let want_crc = ref_crc32(&f[0..hlen]);
    let crc_field = if SYM == 1 || SYM == 4 { crc_s } else { want_crc };
    let c = crc_field.to_le_bytes();
    f[hlen] = c[0];
    f[hlen + 1] = c[1];
    f[hlen + 2] = c[2];
    f[hlen + 3] = c[3];
    let p = hlen + 4;
    f[p] = 1;
    f[p + 1] = 0;
    f[p + 2] = 1;
    f[p + 3] = d0;
    f[p + 4] = d1;
    f[p + 5] = 0;
    let real_packed = 6u64;
    let unpadded_wo_check = hlen + 10;
    let pad = (4 - unpadded_wo_check % 4) % 4;
    let mut k = 0;
    while k < pad {
        f[p + 6 + k] = padb[k];
        k += 1;
    }
    let q = p + 6 + pad;
    let check_len = if CHECK == 1 { 4 } else { 0 };
    if CHECK == 1 {
        f[q] = chk[0];
        f[q + 1] = chk[1];
        f[q + 2] = chk[2];
        f[q + 3] = chk[3];
    }
    let total = q + check_len;
    f[total] = 0xEE;
    let mut rd = ArrReader::<N>::new(f, total + 1);
    let mut sink = RecSink::<4>::new();
    let mut records: Vec<Record> = Vec::with_capacity(2);
    let (ok, counted) = {
        let mut ci = util::CountBufRead::new(&mut rd);
        let hb = ci.read_u8();
        forget(hb);
        let r = read_block(&mut ci, &mut sink, if CHECK == 1 { CheckMethod::Crc32 } else { CheckMethod::None }, &mut records, HS as u8);
        let ok = r.is_ok();
        forget(r);
        (ok, ci.count())
    };
    let mut pad_zero = true;
    let mut k2 = 0;
    while k2 < pad {
        if padb[k2] != 0 {
            pad_zero = false;
        }
        k2 += 1;
    }
    let check_ok = CHECK != 1 || u32::from_le_bytes(chk) == ref_crc32(&[d0, d1]);
    let canon = crc_field == want_crc
        && (!present || packed == real_packed)
        && (!present || unpacked == 2)
        && pad_zero
        && check_ok;
    vassert!(ok == canon, "read_block: accepted iff header CRC32, declared compressed and uncompressed sizes, zero block padding and the block check all agree with the decoded data");
    if ok {
        vassert!(sink.len == 2 && sink.buf[0] == d0 && sink.buf[1] == d1, "read_block: the block's content is written to the output");
        vassert!(records.len() == 1 && records[0].unpadded_size as u64 == (unpadded_wo_check + check_len) as u64 && records[0].unpacked_size as u64 == 2, "read_block: index record = unpadded block size (header + data + check, without padding) and uncompressed size");
        vassert!(counted == total && rd.pos == total, "read_block: consumes header, payload, padding and check, nothing more");
    } else {
        vassert!(sink.len == 0, "read_block: nothing is written for a rejected block");
    }
    vcover!(ok, "block_ok");
    vcover!(!ok && crc_field == want_crc && pad_zero && check_ok, "declared_size_mismatch_rejected");
    vcover!(!ok && !pad_zero && crc_field == want_crc, "nonzero_block_padding_rejected");
    forget(records);
}

//@ harness props=C03,C06,C07 tier=quick unwind=6 unwindset=update_table:300,ref_crc32.0:10,ref_crc32.1:300,default_read_exact:4,decompress:4,scripted_block_header:5,read_block_fields:5,spec_fill:8200 mem_gb=12 timeout=900 native=no
//@ bound: read_block with the header parser replaced by its contract: 12-byte header, no check; symbolic header CRC field, declared sizes (or absent), block padding bytes, 2 payload bytes (one uncompressed LZMA2 chunk)
#[cfg_attr(kani, kani::proof)]
#[cfg_attr(kani, kani::stub(std::fmt::format, crate::verif_common::stub_format))]
#[cfg_attr(kani, kani::stub(std::io::Error::is_interrupted, crate::verif_common::stub_not_interrupted))]
#[cfg_attr(kani, kani::stub(crate::decode::xz::read_block_header, crate::decode::xz::verif_h::scripted_block_header))]
#[cfg_attr(kani, kani::stub(crate::decode::lzma::DecoderState::new, crate::decode::stream::verif_h::new_scripted_lit))]
#[cfg_attr(kani, kani::stub(crate::decode::lzbuffer::LzAccumBuffer::from_stream, crate::decode::lzbuffer::verif_h::accum_from_stream_with_capacity))]
pub fn xzblk_read_block_fields_hs3_chk0() {
    read_block_fields::<3, 0, 4, 64>()
}

//@ harness props=C03,C06,C07 tier=quick unwind=6 unwindset=update_table:300,ref_crc32.0:10,ref_crc32.1:300,default_read_exact:4,decompress:4,scripted_block_header:5,read_block_fields:5,spec_fill:8200 mem_gb=12 timeout=900 native=no
//@ bound: read_block with the header parser replaced by its contract: 12-byte header, CRC32 check field symbolic; symbolic header CRC field, declared sizes (or absent), block padding bytes, 2 payload bytes (one uncompressed LZMA2 chunk)
#[cfg_attr(kani, kani::proof)]
#[cfg_attr(kani, kani::stub(std::fmt::format, crate::verif_common::stub_format))]
#[cfg_attr(kani, kani::stub(std::io::Error::is_interrupted, crate::verif_common::stub_not_interrupted))]
#[cfg_attr(kani, kani::stub(crate::decode::xz::read_block_header, crate::decode::xz::verif_h::scripted_block_header))]
#[cfg_attr(kani, kani::stub(crate::decode::lzma::DecoderState::new, crate::decode::stream::verif_h::new_scripted_lit))]
#[cfg_attr(kani, kani::stub(crate::decode::lzbuffer::LzAccumBuffer::from_stream, crate::decode::lzbuffer::verif_h::accum_from_stream_with_capacity))]
pub fn xzblk_read_block_fields_hs3_chk1() {
    read_block_fields::<3, 1, 4, 64>()
}

//@ harness props=C03,C06,C07 tier=quick unwind=6 unwindset=update_table:300,ref_crc32.0:10,ref_crc32.1:300,default_read_exact:4,decompress:4,scripted_block_header:5,read_block_fields:5,spec_fill:8200 mem_gb=12 timeout=900 native=no cbmc=--max-field-sensitivity-array-size;512
//@ bound: read_block with the header parser replaced by its contract: 256-byte header (size byte 0x40), no check; symbolic header CRC field, declared sizes (or absent), block padding bytes, 2 payload bytes (one uncompressed LZMA2 chunk)
#[cfg_attr(kani, kani::proof)]
#[cfg_attr(kani, kani::stub(std::fmt::format, crate::verif_common::stub_format))]
#[cfg_attr(kani, kani::stub(std::io::Error::is_interrupted, crate::verif_common::stub_not_interrupted))]
#[cfg_attr(kani, kani::stub(crate::decode::xz::read_block_header, crate::decode::xz::verif_h::scripted_block_header))]
#[cfg_attr(kani, kani::stub(crate::decode::lzma::DecoderState::new, crate::decode::stream::verif_h::new_scripted_lit))]
#[cfg_attr(kani, kani::stub(crate::decode::lzbuffer::LzAccumBuffer::from_stream, crate::decode::lzbuffer::verif_h::accum_from_stream_with_capacity))]
pub fn xzblk_read_block_fields_hs64_chk0() {
    read_block_fields::<64, 0, 4, 300>()
}

//@ harness props=C03,C06,C07 tier=quick unwind=6 unwindset=update_table:300,ref_crc32.0:10,ref_crc32.1:300,default_read_exact:4,decompress:4,scripted_block_header:5,read_block_fields:5,spec_fill:8200 mem_gb=12 timeout=900 native=no opt_covers=declared_size_mismatch_rejected,nonzero_block_padding_rejected
//@ bound: read_block with the header parser replaced by its contract, 12-byte header, no check, 2 symbolic payload bytes; every field concrete and right
#[cfg_attr(kani, kani::proof)]
#[cfg_attr(kani, kani::stub(std::fmt::format, crate::verif_common::stub_format))]
#[cfg_attr(kani, kani::stub(std::io::Error::is_interrupted, crate::verif_common::stub_not_interrupted))]
#[cfg_attr(kani, kani::stub(crate::decode::xz::read_block_header, crate::decode::xz::verif_h::scripted_block_header))]
#[cfg_attr(kani, kani::stub(crate::decode::lzma::DecoderState::new, crate::decode::stream::verif_h::new_scripted_lit))]
#[cfg_attr(kani, kani::stub(crate::decode::lzbuffer::LzAccumBuffer::from_stream, crate::decode::lzbuffer::verif_h::accum_from_stream_with_capacity))]
pub fn xzblk_read_block_sym0() {
    read_block_fields::<3, 0, 0, 64>()
}

//@ harness props=C03,C06,C07 tier=quick unwind=6 unwindset=update_table:300,ref_crc32.0:10,ref_crc32.1:300,default_read_exact:4,decompress:4,scripted_block_header:5,read_block_fields:5,spec_fill:8200 mem_gb=12 timeout=900 native=no opt_covers=declared_size_mismatch_rejected,nonzero_block_padding_rejected
//@ bound: read_block with the header parser replaced by its contract, 12-byte header, no check, 2 symbolic payload bytes; header CRC32 field symbolic
#[cfg_attr(kani, kani::proof)]
#[cfg_attr(kani, kani::stub(std::fmt::format, crate::verif_common::stub_format))]
#[cfg_attr(kani, kani::stub(std::io::Error::is_interrupted, crate::verif_common::stub_not_interrupted))]
#[cfg_attr(kani, kani::stub(crate::decode::xz::read_block_header, crate::decode::xz::verif_h::scripted_block_header))]
#[cfg_attr(kani, kani::stub(crate::decode::lzma::DecoderState::new, crate::decode::stream::verif_h::new_scripted_lit))]
#[cfg_attr(kani, kani::stub(crate::decode::lzbuffer::LzAccumBuffer::from_stream, crate::decode::lzbuffer::verif_h::accum_from_stream_with_capacity))]
pub fn xzblk_read_block_sym1() {
    read_block_fields::<3, 0, 1, 64>()
}

//@ harness props=C03,C06,C07 tier=quick unwind=6 unwindset=update_table:300,ref_crc32.0:10,ref_crc32.1:300,default_read_exact:4,decompress:4,scripted_block_header:5,read_block_fields:5,spec_fill:8200 mem_gb=12 timeout=900 native=no opt_covers=nonzero_block_padding_rejected
//@ bound: read_block with the header parser replaced by its contract, 12-byte header, no check, 2 symbolic payload bytes; declared compressed/uncompressed sizes symbolic
#[cfg_attr(kani, kani::proof)]
#[cfg_attr(kani, kani::stub(std::fmt::format, crate::verif_common::stub_format))]
#[cfg_attr(kani, kani::stub(std::io::Error::is_interrupted, crate::verif_common::stub_not_interrupted))]
#[cfg_attr(kani, kani::stub(crate::decode::xz::read_block_header, crate::decode::xz::verif_h::scripted_block_header))]
#[cfg_attr(kani, kani::stub(crate::decode::lzma::DecoderState::new, crate::decode::stream::verif_h::new_scripted_lit))]
#[cfg_attr(kani, kani::stub(crate::decode::lzbuffer::LzAccumBuffer::from_stream, crate::decode::lzbuffer::verif_h::accum_from_stream_with_capacity))]
pub fn xzblk_read_block_sym2() {
    read_block_fields::<3, 0, 2, 64>()
}

//@ harness props=C03,C06,C07 tier=quick unwind=6 unwindset=update_table:300,ref_crc32.0:10,ref_crc32.1:300,default_read_exact:4,decompress:4,scripted_block_header:5,read_block_fields:5,spec_fill:8200 mem_gb=12 timeout=900 native=no opt_covers=declared_size_mismatch_rejected
//@ bound: read_block with the header parser replaced by its contract, 12-byte header, no check, 2 symbolic payload bytes; block padding bytes symbolic
#[cfg_attr(kani, kani::proof)]
#[cfg_attr(kani, kani::stub(std::fmt::format, crate::verif_common::stub_format))]
#[cfg_attr(kani, kani::stub(std::io::Error::is_interrupted, crate::verif_common::stub_not_interrupted))]
#[cfg_attr(kani, kani::stub(crate::decode::xz::read_block_header, crate::decode::xz::verif_h::scripted_block_header))]
#[cfg_attr(kani, kani::stub(crate::decode::lzma::DecoderState::new, crate::decode::stream::verif_h::new_scripted_lit))]
#[cfg_attr(kani, kani::stub(crate::decode::lzbuffer::LzAccumBuffer::from_stream, crate::decode::lzbuffer::verif_h::accum_from_stream_with_capacity))]
pub fn xzblk_read_block_sym3() {
    read_block_fields::<3, 0, 3, 64>()
}

// ----- probes (thorough/optional): which adapter makes the reader opaque to constant propagation -----
fn probe_expensive() -> u32 {
    // a loop CBMC can only cut by knowing the condition: shows up as "Unwinding loop" lines
    let mut x = 0u32;
    let mut i = 0;
    while i < 40 {
        x = x.wrapping_mul(3).wrapping_add(i);
        i += 1;
    }
    x
}

fn probe_adapters<const MODE: usize>() {
    if MODE == 7 {
        let mut f = [0u8; 300];
        f[16] = 1;
        let mut rd = ArrReader::<300>::new(f, 40);
        let mut b = [0u8; 16];
        let r = io::Read::read_exact(&mut rd, &mut b);
        forget(r);
        let s = rd.read_u8();
        let v = match &s {
            Ok(x) => *x,
            Err(_) => 0,
        };
        forget(s);
        if v != 1 {
            let e = probe_expensive();
            vassert!(e != 12345, "probe: unreachable expensive branch");
        }
        return;
    }
    if MODE == 8 {
        let mut f = [0u8; 40];
        f[16] = 1;
        let mut rd = ArrReader::<40>::new(f, 40);
        let mut ci = util::CountBufRead::new(&mut rd);
        {
            let mut taken = (&mut ci).take(16);
            let mut b = [0u8; 16];
            let r = taken.read_exact(&mut b);
            forget(r);
        }
        let s = ci.read_u8();
        let v = match &s {
            Ok(x) => *x,
            Err(_) => 0,
        };
        forget(s);
        if v != 1 {
            let e = probe_expensive();
            vassert!(e != 12345, "probe: unreachable expensive branch");
        }
        return;
    }
    if MODE >= 4 {
        // smallest possible: 40-byte array, direct reads
        let mut f = [0u8; 40];
        f[16] = 1;
        let mut rd = ArrReader::<40>::new(f, 40);
        if MODE == 5 {
            rd.pos = 16;
        } else {
            let mut b = [0u8; 16];
            let r = io::Read::read_exact(&mut rd, &mut b);
            forget(r);
        }
        let s = if MODE == 6 {
            let mut one = [0u8; 1];
            let r = io::Read::read(&mut rd, &mut one);
            forget(r);
            Ok(one[0])
        } else {
            rd.read_u8()
        };
        let v = match &s {
            Ok(x) => *x,
            Err(_) => 0,
        };
        forget(s);
        if v != 1 {
            let e = probe_expensive();
            vassert!(e != 12345, "probe: unreachable expensive branch");
        }
        return;
    }
    let mut f = [0u8; 300];
    f[0] = 3;
    f[12] = 0x55;
    f[16] = 1;
    let mut rd = ArrReader::<300>::new(f, 40);
    let mut digest = CRC32.digest();
    {
        let mut ci = util::CountBufRead::new(&mut rd);
        let hb = ci.read_u8();
        forget(hb);
        if MODE == 0 {
            // plain: read 11 bytes through Take only
            let mut taken = (&mut ci).take(11);
            let mut b = [0u8; 11];
            let r = taken.read_exact(&mut b);
            forget(r);
        } else if MODE == 1 {
            let mut taken = (&mut ci).take(11);
            let mut dr = util::CrcDigestRead::new(&mut taken, &mut digest);
            let mut b = [0u8; 11];
            let r = dr.read_exact(&mut b);
            forget(r);
        } else {
            let mut taken = (&mut ci).take(11);
            let mut br = io::BufReader::new(util::CrcDigestRead::new(&mut taken, &mut digest));
            let n = match io::BufRead::fill_buf(&mut br) {
                Ok(b) => b.len(),
                Err(_) => 0,
            };
            io::BufRead::consume(&mut br, n);
            if MODE == 3 {
                let n2 = match io::BufRead::fill_buf(&mut br) {
                    Ok(b) => b.len(),
                    Err(_) => 0,
                };
                io::BufRead::consume(&mut br, n2);
            }
        }
        let c = ci.read_u32::<LittleEndian>();
        forget(c);
        let s = ci.read_u8();
        let v = match &s {
            Ok(x) => *x,
            Err(_) => 0,
        };
        forget(s);
        if v != 1 {
            let e = probe_expensive();
            vassert!(e != 12345, "probe: unreachable expensive branch");
        }
    }
    vassert!(rd.pos == 17, "probe: position after header, crc and one byte");
}

//@ harness props=C03 tier=thorough optional=yes unwind=45 unwindset=update_table:20,default_read_exact:4 mem_gb=6 timeout=300
//@ bound: probe 0
#[cfg_attr(kani, kani::proof)]
#[cfg_attr(kani, kani::stub(std::fmt::format, crate::verif_common::stub_format))]
#[cfg_attr(kani, kani::stub(std::io::Error::is_interrupted, crate::verif_common::stub_not_interrupted))]
pub fn xz_probe_adapters_0() {
    probe_adapters::<0>()
}

//@ harness props=C03 tier=thorough optional=yes unwind=45 unwindset=update_table:20,default_read_exact:4 mem_gb=6 timeout=300
//@ bound: probe 1
#[cfg_attr(kani, kani::proof)]
#[cfg_attr(kani, kani::stub(std::fmt::format, crate::verif_common::stub_format))]
#[cfg_attr(kani, kani::stub(std::io::Error::is_interrupted, crate::verif_common::stub_not_interrupted))]
pub fn xz_probe_adapters_1() {
    probe_adapters::<1>()
}

//@ harness props=C03 tier=thorough optional=yes unwind=45 unwindset=update_table:20,default_read_exact:4 mem_gb=6 timeout=300
//@ bound: probe 2
#[cfg_attr(kani, kani::proof)]
#[cfg_attr(kani, kani::stub(std::fmt::format, crate::verif_common::stub_format))]
#[cfg_attr(kani, kani::stub(std::io::Error::is_interrupted, crate::verif_common::stub_not_interrupted))]
pub fn xz_probe_adapters_2() {
    probe_adapters::<2>()
}

//@ harness props=C03 tier=thorough optional=yes unwind=45 unwindset=update_table:20,default_read_exact:4 mem_gb=6 timeout=300
//@ bound: probe 3
#[cfg_attr(kani, kani::proof)]
#[cfg_attr(kani, kani::stub(std::fmt::format, crate::verif_common::stub_format))]
#[cfg_attr(kani, kani::stub(std::io::Error::is_interrupted, crate::verif_common::stub_not_interrupted))]
pub fn xz_probe_adapters_3() {
    probe_adapters::<3>()
}

//@ harness props=C03 tier=thorough optional=yes unwind=45 unwindset=update_table:20,default_read_exact:4 mem_gb=6 timeout=300
//@ bound: probe 4
#[cfg_attr(kani, kani::proof)]
#[cfg_attr(kani, kani::stub(std::fmt::format, crate::verif_common::stub_format))]
#[cfg_attr(kani, kani::stub(std::io::Error::is_interrupted, crate::verif_common::stub_not_interrupted))]
pub fn xz_probe_adapters_4() {
    probe_adapters::<4>()
}

//@ harness props=C03 tier=thorough optional=yes unwind=45 unwindset=update_table:20,default_read_exact:4 mem_gb=6 timeout=300
//@ bound: probe 5
#[cfg_attr(kani, kani::proof)]
#[cfg_attr(kani, kani::stub(std::fmt::format, crate::verif_common::stub_format))]
#[cfg_attr(kani, kani::stub(std::io::Error::is_interrupted, crate::verif_common::stub_not_interrupted))]
pub fn xz_probe_adapters_5() {
    probe_adapters::<5>()
}

//@ harness props=C03 tier=thorough optional=yes unwind=45 unwindset=update_table:20,default_read_exact:4 mem_gb=6 timeout=300
//@ bound: probe 6
#[cfg_attr(kani, kani::proof)]
#[cfg_attr(kani, kani::stub(std::fmt::format, crate::verif_common::stub_format))]
#[cfg_attr(kani, kani::stub(std::io::Error::is_interrupted, crate::verif_common::stub_not_interrupted))]
pub fn xz_probe_adapters_6() {
    probe_adapters::<6>()
}

//@ harness props=C03 tier=thorough optional=yes unwind=45 unwindset=update_table:20,default_read_exact:4 mem_gb=6 timeout=300 cbmc=--max-field-sensitivity-array-size;512
//@ bound: probe 7
#[cfg_attr(kani, kani::proof)]
#[cfg_attr(kani, kani::stub(std::fmt::format, crate::verif_common::stub_format))]
#[cfg_attr(kani, kani::stub(std::io::Error::is_interrupted, crate::verif_common::stub_not_interrupted))]
pub fn xz_probe_adapters_7() {
    probe_adapters::<7>()
}

//@ harness props=C03 tier=thorough optional=yes unwind=45 unwindset=update_table:20,default_read_exact:4 mem_gb=6 timeout=300
//@ bound: probe 8
#[cfg_attr(kani, kani::proof)]
#[cfg_attr(kani, kani::stub(std::fmt::format, crate::verif_common::stub_format))]
#[cfg_attr(kani, kani::stub(std::io::Error::is_interrupted, crate::verif_common::stub_not_interrupted))]
pub fn xz_probe_adapters_8() {
    probe_adapters::<8>()
}

//@ harness props=C07,C03 tier=quick unwind=8 unwindset=default_read_exact:6,flush_zero_padding:10 mem_gb=6 timeout=600 native=no
//@ bound: read_block_header directly on a 12-byte header body (flags 0, filter 0x21) with a SYMBOLIC one-byte size-of-properties field and symbolic following bytes; `vec![0; n]` observed: no request larger than the header size
#[cfg_attr(kani, kani::proof)]
#[cfg_attr(kani, kani::stub(std::fmt::format, crate::verif_common::stub_format))]
#[cfg_attr(kani, kani::stub(std::io::Error::is_interrupted, crate::verif_common::stub_not_interrupted))]
#[cfg_attr(kani, kani::stub(std::vec::from_elem, crate::verif_common::observing_from_elem))]
pub fn xzblk_header_alloc_guard() {
    let mut t = Tape::<16>::new();
    let psize = t.u8() & 0x7F;
    let rest: [u8; 8] = t.bytes::<8>();
    let f = [0x00u8, 0x21, psize, rest[0], rest[1], rest[2], rest[3], rest[4], rest[5], rest[6], rest[7]];
    crate::verif_common::ALLOC_MAX_REQUEST.store(0, std::sync::atomic::Ordering::Relaxed);
    let mut rd = ArrReader::<11>::new(f, 11);
    let header_size: u64 = 11;
    let r = read_block_header(&mut rd, header_size);
    let ok = r.is_ok();
    forget(r);
    let req = crate::verif_common::ALLOC_MAX_REQUEST.load(std::sync::atomic::Ordering::Relaxed);
    vassert!(req as u64 <= header_size, "block header: the filter-properties buffer is never requested larger than the block header itself (early abort before allocating)");
    if psize as u64 > header_size {
        vassert!(!ok, "block header: a properties size beyond the header size is rejected");
    }
    vcover!(psize == 0x7F, "huge_props_size");
    vcover!(ok, "alloc_guard_ok");
}

// ---------------------------------------------------------------------------------------
// decode_stream on a whole file WITH blocks (the block header parser scripted as in
// read_block_fields): stream header, NB blocks (each: 12-byte header body + CRC, one
// uncompressed LZMA2 chunk of 2 symbolic bytes, padding, no check), index with NB records,
// footer. Everything but the payload bytes and one index field is concrete.
// ---------------------------------------------------------------------------------------
fn xz_file_with_blocks<const NB: usize, const DEV: usize>() {
    let mut t = Tape::<16>::new();
    let data: [u8; 4] = t.bytes::<4>();
    BH_PRESENT.store(0, Ordering::Relaxed);
    let mut f = [0u8; 96];
    let mut n = 0usize;
    let hdr = [0xFDu8, 0x37, 0x7A, 0x58, 0x5A, 0x00, 0x00, 0x00];
    let mut i = 0;
    while i < 8 {
        f[n] = hdr[i];
        n += 1;
        i += 1;
    }
    let c = ref_crc32(&[0u8, 0u8]).to_le_bytes();
    f[n] = c[0];
    f[n + 1] = c[1];
    f[n + 2] = c[2];
    f[n + 3] = c[3];
    n += 4;
    let mut b = 0;
    while b < NB {
        let start = n;
        f[n] = 3;
        f[n + 1] = 0x00;
        f[n + 2] = 0x21;
        f[n + 3] = 0x01;
        f[n + 4] = 0x16;
        let c = ref_crc32(&f[start..start + 12]).to_le_bytes();
        f[start + 12] = c[0];
        f[start + 13] = c[1];
        f[start + 14] = c[2];
        f[start + 15] = c[3];
        n = start + 16;
        f[n] = 1;
        f[n + 1] = 0;
        f[n + 2] = 1;
        f[n + 3] = data[2 * b];
        f[n + 4] = data[2 * b + 1];
        f[n + 5] = 0;
        n += 6; // unpadded size 22
        n += 2; // two zero padding bytes
        b += 1;
    }
    // index
    let istart = n;
    f[n] = 0;
    f[n + 1] = NB as u8;
    n += 2;
    let mut r = 0;
    while r < NB {
        f[n] = if DEV == 1 && r == NB - 1 { 23 } else { 22 };
        f[n + 1] = 2;
        n += 2;
        r += 1;
    }
    while (n - istart) % 4 != 0 {
        n += 1;
    }
    let c = ref_crc32(&f[istart..n]).to_le_bytes();
    f[n] = c[0];
    f[n + 1] = c[1];
    f[n + 2] = c[2];
    f[n + 3] = c[3];
    n += 4;
    let isize = n - istart;
    // footer
    let bs = ((isize / 4 - 1) as u32).to_le_bytes();
    let ft = [bs[0], bs[1], bs[2], bs[3], 0u8, 0u8];
    let c = ref_crc32(&ft).to_le_bytes();
    f[n] = c[0];
    f[n + 1] = c[1];
    f[n + 2] = c[2];
    f[n + 3] = c[3];
    n += 4;
    let mut k = 0;
    while k < 6 {
        f[n] = ft[k];
        n += 1;
        k += 1;
    }
    f[n] = 0x59;
    f[n + 1] = 0x5A;
    n += 2;
    let mut rd = ArrReader::<96>::new(f, n);
    let mut sink = RecSink::<8>::new();
    let res = decode_stream(&mut rd, &mut sink);
    let ok = res.is_ok();
    forget(res);
    if DEV == 0 {
        vassert!(ok, "xz: a well-formed file with blocks decodes");
        vassert!(sink.len == 2 * NB, "xz: output is the concatenation of the blocks' contents");
        let mut q = 0;
        while q < 2 * NB {
            vassert!(sink.buf[q] == data[q], "xz: block contents in order");
            q += 1;
        }
        vassert!(rd.pos == n, "xz: the whole file is consumed");
    } else {
        vassert!(!ok, "xz: an index record disagreeing with the decoded block is rejected");
    }
    vcover!(true, "end_reached");
}

//@ harness props=C03,C06,C11,C07 tier=thorough optional=yes unwind=8 unwindset=update_table:20,ref_crc32.0:10,ref_crc32.1:20,default_read_exact:4,decompress:4,scripted_block_header:5,decode_stream:5,check_index:5,xz_file_with_blocks:10 mem_gb=12 timeout=900 native=no cbmc=--max-field-sensitivity-array-size;128
//@ bound: decode_stream on a whole .xz file (block header parser scripted): one block, well-formed; each block one uncompressed LZMA2 chunk of 2 symbolic bytes, check None
#[cfg_attr(kani, kani::proof)]
#[cfg_attr(kani, kani::stub(std::fmt::format, crate::verif_common::stub_format))]
#[cfg_attr(kani, kani::stub(std::io::Error::is_interrupted, crate::verif_common::stub_not_interrupted))]
#[cfg_attr(kani, kani::stub(crate::decode::xz::read_block_header, crate::decode::xz::verif_h::scripted_block_header))]
#[cfg_attr(kani, kani::stub(crate::decode::lzma::DecoderState::new, crate::decode::stream::verif_h::new_scripted_lit))]
#[cfg_attr(kani, kani::stub(crate::decode::lzbuffer::LzAccumBuffer::from_stream, crate::decode::lzbuffer::verif_h::accum_from_stream_with_capacity))]
pub fn xz_file_blocks1_dev0() {
    xz_file_with_blocks::<1, 0>()
}

//@ harness props=C03,C06,C11,C07 tier=thorough optional=yes unwind=8 unwindset=update_table:20,ref_crc32.0:10,ref_crc32.1:20,default_read_exact:4,decompress:4,scripted_block_header:5,decode_stream:5,check_index:5,xz_file_with_blocks:10 mem_gb=12 timeout=900 native=no cbmc=--max-field-sensitivity-array-size;128
//@ bound: decode_stream on a whole .xz file (block header parser scripted): two blocks, well-formed; each block one uncompressed LZMA2 chunk of 2 symbolic bytes, check None
#[cfg_attr(kani, kani::proof)]
#[cfg_attr(kani, kani::stub(std::fmt::format, crate::verif_common::stub_format))]
#[cfg_attr(kani, kani::stub(std::io::Error::is_interrupted, crate::verif_common::stub_not_interrupted))]
#[cfg_attr(kani, kani::stub(crate::decode::xz::read_block_header, crate::decode::xz::verif_h::scripted_block_header))]
#[cfg_attr(kani, kani::stub(crate::decode::lzma::DecoderState::new, crate::decode::stream::verif_h::new_scripted_lit))]
#[cfg_attr(kani, kani::stub(crate::decode::lzbuffer::LzAccumBuffer::from_stream, crate::decode::lzbuffer::verif_h::accum_from_stream_with_capacity))]
pub fn xz_file_blocks2_dev0() {
    xz_file_with_blocks::<2, 0>()
}

//@ harness props=C03,C06,C11,C07 tier=thorough optional=yes unwind=8 unwindset=update_table:20,ref_crc32.0:10,ref_crc32.1:20,default_read_exact:4,decompress:4,scripted_block_header:5,decode_stream:5,check_index:5,xz_file_with_blocks:10 mem_gb=12 timeout=900 native=no cbmc=--max-field-sensitivity-array-size;128
//@ bound: decode_stream on a whole .xz file (block header parser scripted): two blocks, last index record off by one; each block one uncompressed LZMA2 chunk of 2 symbolic bytes, check None
#[cfg_attr(kani, kani::proof)]
#[cfg_attr(kani, kani::stub(std::fmt::format, crate::verif_common::stub_format))]
#[cfg_attr(kani, kani::stub(std::io::Error::is_interrupted, crate::verif_common::stub_not_interrupted))]
#[cfg_attr(kani, kani::stub(crate::decode::xz::read_block_header, crate::decode::xz::verif_h::scripted_block_header))]
#[cfg_attr(kani, kani::stub(crate::decode::lzma::DecoderState::new, crate::decode::stream::verif_h::new_scripted_lit))]
#[cfg_attr(kani, kani::stub(crate::decode::lzbuffer::LzAccumBuffer::from_stream, crate::decode::lzbuffer::verif_h::accum_from_stream_with_capacity))]
pub fn xz_file_blocks2_dev1() {
    xz_file_with_blocks::<2, 1>()
}

// ---------------------------------------------------------------------------------------
// decode_stream's own glue with read_block and check_index replaced by scripted consumers:
// a fresh byte counter per block / for the index (each callee is entered with count == 1: only
// the size byte / index indicator has been read), blocks in order, index after the last block,
// index size measured from the indicator, footer checks.
// ---------------------------------------------------------------------------------------
pub static GL_CALLS: AtomicU64 = AtomicU64::new(0);
pub static GL_ENTRY_BAD: AtomicU64 = AtomicU64::new(0);
pub static GL_RECORDS_AT_INDEX: AtomicU64 = AtomicU64::new(u64::MAX);
pub static GL_HS_SEEN: AtomicU64 = AtomicU64::new(0);

pub fn scripted_read_block<R, W>(
    count_input: &mut util::CountBufRead<'_, R>,
    _output: &mut W,
    _check_method: CheckMethod,
    records: &mut Vec<Record>,
    header_size: u8,
) -> error::Result<bool>
where
    R: io::BufRead,
    W: io::Write,
{
    let k = GL_CALLS.load(Ordering::Relaxed);
    GL_CALLS.store(k + 1, Ordering::Relaxed);
    if count_input.count() != 1 {
        GL_ENTRY_BAD.store(1, Ordering::Relaxed);
    }
    GL_HS_SEEN.store((GL_HS_SEEN.load(Ordering::Relaxed) << 8) | header_size as u64, Ordering::Relaxed);
    let mut b = [0u8; 7];
    match count_input.read_exact(&mut b) {
        Ok(()) => {}
        Err(e) => return Err(error::Error::IoError(e)),
    }
    records.push(Record { unpadded_size: 8 as _, unpacked_size: 0 as _ });
    Ok(false)
}

pub fn scripted_check_index<R>(count_input: &mut util::CountBufRead<'_, R>, records: &[Record]) -> error::Result<()>
where
    R: io::BufRead,
{
    if count_input.count() != 1 {
        GL_ENTRY_BAD.store(1, Ordering::Relaxed);
    }
    GL_RECORDS_AT_INDEX.store(records.len() as u64, Ordering::Relaxed);
    let mut b = [0u8; 7];
    match count_input.read_exact(&mut b) {
        Ok(()) => Ok(()),
        Err(e) => Err(error::Error::IoError(e)),
    }
}

fn xz_stream_glue<const NB: usize>() {
    let mut t = Tape::<32>::new();
    let fill: [u8; 8] = t.bytes::<8>();
    let bsize = t.u32();
    GL_CALLS.store(0, Ordering::Relaxed);
    GL_ENTRY_BAD.store(0, Ordering::Relaxed);
    GL_RECORDS_AT_INDEX.store(u64::MAX, Ordering::Relaxed);
    GL_HS_SEEN.store(0, Ordering::Relaxed);
    let mut f = [0u8; 64];
    let hdr = [0xFDu8, 0x37, 0x7A, 0x58, 0x5A, 0x00, 0x00, 0x01];
    let mut n = 0usize;
    while n < 8 {
        f[n] = hdr[n];
        n += 1;
    }
    let c = ref_crc32(&[0u8, 1u8]).to_le_bytes();
    f[8] = c[0];
    f[9] = c[1];
    f[10] = c[2];
    f[11] = c[3];
    n = 12;
    let mut b = 0;
    while b < NB {
        f[n] = (3 + b) as u8; // non-zero size byte: a block follows
        let mut i = 1;
        while i < 8 {
            f[n + i] = fill[i];
            i += 1;
        }
        n += 8;
        b += 1;
    }
    f[n] = 0; // index indicator
    let mut i = 1;
    while i < 8 {
        f[n + i] = fill[8 - i];
        i += 1;
    }
    n += 8;
    // footer: crc32, backward size (symbolic), flags, magic
    let bs = bsize.to_le_bytes();
    let ft = [bs[0], bs[1], bs[2], bs[3], 0u8, 1u8];
    let c = ref_crc32(&ft).to_le_bytes();
    f[n] = c[0];
    f[n + 1] = c[1];
    f[n + 2] = c[2];
    f[n + 3] = c[3];
    n += 4;
    let mut k = 0;
    while k < 6 {
        f[n] = ft[k];
        n += 1;
        k += 1;
    }
    f[n] = 0x59;
    f[n + 1] = 0x5A;
    n += 2;
    let mut rd = ArrReader::<64>::new(f, n);
    let mut sink = RecSink::<4>::new();
    let r = decode_stream(&mut rd, &mut sink);
    let ok = r.is_ok();
    forget(r);
    vassert!(ok == (bsize == 1), "xz stream: accepted iff the footer's backward size equals the size of the index alone (measured from the index indicator)");
    vassert!(GL_ENTRY_BAD.load(Ordering::Relaxed) == 0, "xz stream: every block and the index are parsed with a fresh byte counter (unpadded sizes and padding are relative to the block / index start)");
    if ok {
        vassert!(GL_CALLS.load(Ordering::Relaxed) == NB as u64, "xz stream: one read_block per block");
        vassert!(GL_RECORDS_AT_INDEX.load(Ordering::Relaxed) == NB as u64, "xz stream: the index is checked against all decoded blocks, after the last one");
        let want_hs: u64 = if NB == 0 { 0 } else if NB == 1 { 3 } else { (3 << 8) | 4 };
        vassert!(GL_HS_SEEN.load(Ordering::Relaxed) == want_hs, "xz stream: each block is given its own size byte, in order");
        vassert!(rd.pos == n, "xz stream: whole file consumed");
    }
    vcover!(ok, "stream_ok");
    vcover!(!ok, "bad_backward_size");
}

//@ harness props=C03,C06,C11,C07 tier=quick unwind=10 unwindset=update_table:10,default_read_exact:4,decode_stream:5,xz_stream_glue:12 mem_gb=6 timeout=600 native=no
//@ bound: decode_stream's block loop and footer with read_block / check_index scripted: 1 block(s), symbolic footer backward size
#[cfg_attr(kani, kani::proof)]
#[cfg_attr(kani, kani::stub(std::fmt::format, crate::verif_common::stub_format))]
#[cfg_attr(kani, kani::stub(std::io::Error::is_interrupted, crate::verif_common::stub_not_interrupted))]
#[cfg_attr(kani, kani::stub(crate::decode::xz::read_block, crate::decode::xz::verif_h::scripted_read_block))]
#[cfg_attr(kani, kani::stub(crate::decode::xz::check_index, crate::decode::xz::verif_h::scripted_check_index))]
pub fn xz_stream_glue_b1() {
    xz_stream_glue::<1>()
}

//@ harness props=C03,C06,C11,C07 tier=quick unwind=10 unwindset=update_table:10,default_read_exact:4,decode_stream:5,xz_stream_glue:12 mem_gb=6 timeout=600 native=no
//@ bound: decode_stream's block loop and footer with read_block / check_index scripted: 2 block(s), symbolic footer backward size
#[cfg_attr(kani, kani::proof)]
#[cfg_attr(kani, kani::stub(std::fmt::format, crate::verif_common::stub_format))]
#[cfg_attr(kani, kani::stub(std::io::Error::is_interrupted, crate::verif_common::stub_not_interrupted))]
#[cfg_attr(kani, kani::stub(crate::decode::xz::read_block, crate::decode::xz::verif_h::scripted_read_block))]
#[cfg_attr(kani, kani::stub(crate::decode::xz::check_index, crate::decode::xz::verif_h::scripted_check_index))]
pub fn xz_stream_glue_b2() {
    xz_stream_glue::<2>()
}


//@ harness props=C13,C03,C06 tier=quick unwind=12 unwindset=default_read_exact:10,FragReader.*4read:5,update_table:6,update_slice16:6 mem_gb=8 timeout=900
//@ bound: validate_block_check(CRC64 and CRC32) on 1 symbolic data byte with the check field delivered in symbolic fragments of 1..3 bytes: same verdict as from a whole-buffer reader
#[cfg_attr(kani, kani::proof)]
#[cfg_attr(kani, kani::stub(std::fmt::format, crate::verif_common::stub_format))]
#[cfg_attr(kani, kani::stub(std::io::Error::is_interrupted, crate::verif_common::stub_not_interrupted))]
pub fn xzblk_check_fragmented() {
    let mut t = Tape::<32>::new();
    let data = [t.u8()];
    let field: [u8; 8] = t.bytes::<8>();
    let cuts: [u8; 8] = t.bytes::<8>();
    let use64 = t.bool();
    let mut whole = ArrReader::<8>::new(field, 8);
    let mut frag = FragReader::<8, 8>::new(field, 8, cuts, 3);
    let m = if use64 { CheckMethod::Crc64 } else { CheckMethod::Crc32 };
    let a = validate_block_check(&mut whole, &data[..], m);
    let b = validate_block_check(&mut frag, &data[..], m);
    let (oa, ob) = (a.is_ok(), b.is_ok());
    forget(a);
    forget(b);
    vassert!(oa == ob, "block check: verdict independent of how the reader fragments the check field");
    vassert!(whole.pos == frag.pos, "block check: same number of bytes consumed under every fragmentation");
    let want = if use64 { u64::from_le_bytes(field) == ref_crc64(&data[..]) } else { u32::from_le_bytes([field[0], field[1], field[2], field[3]]) == ref_crc32(&data[..]) };
    vassert!(ob == want, "block check: accepted iff the field is the checksum of the data, under every fragmentation");
    vcover!(ob && use64, "crc64_ok_fragmented");
    vcover!(!ob, "rejected");
}


//@ harness props=C18,C03,C07 tier=quick unwind=8 unwindset=default_read_exact:4,flush_zero_padding:10 mem_gb=6 timeout=600
//@ bound: read_block_header directly with a TWO-byte multibyte filter id (14 symbolic bits), flags 0, one property byte, 3 zero padding bytes: accepted only for id 0x21
#[cfg_attr(kani, kani::proof)]
#[cfg_attr(kani, kani::stub(std::fmt::format, crate::verif_common::stub_format))]
#[cfg_attr(kani, kani::stub(std::io::Error::is_interrupted, crate::verif_common::stub_not_interrupted))]
pub fn xzblk_header_two_byte_filter_id() {
    let mut t = Tape::<16>::new();
    let lo = t.u8() & 0x7F;
    let hi = t.u8() & 0x7F;
    let prop = t.u8();
    let f = [0x00u8, 0x80 | lo, hi, 0x01, prop, 0, 0, 0];
    let mut rd = ArrReader::<8>::new(f, 8);
    let r = read_block_header(&mut rd, 9);
    let id = (lo as u64) | ((hi as u64) << 7);
    match &r {
        Ok(_) => {
            vassert!(id == 0x21, "block header: a filter id other than LZMA2 (0x21) is refused, whatever its encoding length");
        }
        Err(_) => {
            vassert!(id != 0x21, "block header: the LZMA2 filter id is accepted also in a non-minimal encoding");
        }
    }
    vcover!(id == 0x121, "id_0x121");
    vcover!(r.is_ok(), "two_byte_id_ok");
    forget(r);
}


/// check_index with one record and the record count written in two multibyte bytes [0x80 | A, B]
/// (concrete per instance: a symbolic byte under the table-driven CRC costs > 10 GB here).
fn index_two_byte_count<const A: u8, const B: u8>() {
    let mut t = Tape::<32>::new();
    let u = 5u8;
    let v = 7u8;
    let ru = t.u64();
    let rv = t.u64();
    let head = [0u8, 0x80 | A, B, u, v, 0, 0, 0];
    let c = ref_crc32(&head).to_le_bytes();
    let f = [head[0], head[1], head[2], head[3], head[4], 0, 0, 0, c[0], c[1], c[2], c[3], 0xEE];
    let mut rd = ArrReader::<13>::new(f, 13);
    let records = vec![Record { unpadded_size: ru as _, unpacked_size: rv as _ }];
    let (ok, count) = {
        let mut ci = util::CountBufRead::new(&mut rd);
        let ind = ci.read_u8();
        forget(ind);
        let r = check_index(&mut ci, &records);
        let ok = r.is_ok();
        forget(r);
        (ok, ci.count())
    };
    let cnt = (A as u64) | ((B as u64) << 7);
    let canon = cnt == 1 && u as u64 == ru && v as u64 == rv;
    vassert!(ok == canon, "index: the record count is a multibyte integer of any encoded length; accepted iff it and both sizes agree with the decoded blocks");
    if ok {
        vassert!(count == 12 && rd.pos == 12, "index: size counted = indicator + records + padding + CRC; nothing beyond it is read");
    }
    vcover!(ok, "index_ok_two_byte_count");
    forget(records);
}

//@ harness props=C03,C06,C07 tier=quick unwind=10 unwindset=default_read_exact:6,update_table:10,ref_crc32.0:10 mem_gb=6 timeout=600
//@ bound: check_index directly, one record (symbolic 64-bit sizes vs concrete size fields 5, 7), record count written as the two bytes 81 00 (= 1), CRC32 right: accepted iff the sizes agree
#[cfg_attr(kani, kani::proof)]
#[cfg_attr(kani, kani::stub(std::fmt::format, crate::verif_common::stub_format))]
#[cfg_attr(kani, kani::stub(std::io::Error::is_interrupted, crate::verif_common::stub_not_interrupted))]
pub fn xzblk_index_two_byte_count_1() {
    index_two_byte_count::<1, 0>()
}

//@ harness props=C03,C06,C07 tier=quick unwind=10 unwindset=default_read_exact:6,update_table:10,ref_crc32.0:10 mem_gb=6 timeout=600 opt_covers=index_ok_two_byte_count
//@ bound: check_index directly, one record, record count written as the two bytes 81 01 (= 129), CRC32 right: rejected
#[cfg_attr(kani, kani::proof)]
#[cfg_attr(kani, kani::stub(std::fmt::format, crate::verif_common::stub_format))]
#[cfg_attr(kani, kani::stub(std::io::Error::is_interrupted, crate::verif_common::stub_not_interrupted))]
pub fn xzblk_index_two_byte_count_129() {
    index_two_byte_count::<1, 1>()
}


/// read_block on a block with EMPTY content (LZMA2 payload = the end byte alone) and a check
/// field: the check is still read and verified (CRC of the empty string), the record counts it.
fn read_block_empty<const CHECK: u8>() {
    let mut t = Tape::<16>::new();
    let chk: [u8; 8] = t.bytes::<8>();
    BH_PACKED.store(u64::MAX, Ordering::Relaxed);
    BH_UNPACKED.store(u64::MAX, Ordering::Relaxed);
    BH_PRESENT.store(0, Ordering::Relaxed);
    let mut f = [0u8; 40];
    f[0] = 3;
    f[1] = 0x00;
    f[2] = 0x21;
    f[3] = 0x01;
    f[4] = 0x16;
    let c = ref_crc32(&f[0..12]).to_le_bytes();
    f[12] = c[0];
    f[13] = c[1];
    f[14] = c[2];
    f[15] = c[3];
    f[16] = 0; // LZMA2 end byte: empty content
    // 17 bytes so far -> 3 bytes of block padding
    let check_len = if CHECK == 1 { 4 } else { 8 };
    let mut k = 0;
    while k < check_len {
        f[20 + k] = chk[k];
        k += 1;
    }
    let total = 20 + check_len;
    f[total] = 0xEE;
    let mut rd = ArrReader::<40>::new(f, total + 1);
    let mut sink = RecSink::<4>::new();
    let mut records: Vec<Record> = Vec::with_capacity(2);
    let (ok, counted) = {
        let mut ci = util::CountBufRead::new(&mut rd);
        let hb = ci.read_u8();
        forget(hb);
        let r = read_block(&mut ci, &mut sink, if CHECK == 1 { CheckMethod::Crc32 } else { CheckMethod::Crc64 }, &mut records, 3);
        let ok = r.is_ok();
        forget(r);
        (ok, ci.count())
    };
    let want = if CHECK == 1 {
        u32::from_le_bytes([chk[0], chk[1], chk[2], chk[3]]) == 0
    } else {
        u64::from_le_bytes(chk) == 0
    };
    vassert!(ok == want, "read_block: an empty block is accepted iff its check field is the check of the empty string");
    if ok {
        vassert!(sink.len == 0, "read_block: an empty block writes nothing");
        vassert!(records.len() == 1 && records[0].unpadded_size as u64 == (17 + check_len) as u64 && records[0].unpacked_size as u64 == 0, "read_block: index record = unpadded block size (header + data + check, without padding) and uncompressed size");
        vassert!(counted == total && rd.pos == total, "read_block: consumes header, payload, padding and check, nothing more");
    }
    vcover!(ok, "empty_block_ok");
    forget(records);
}

//@ harness props=C03,C06,C07,C18 tier=quick unwind=6 unwindset=update_table:300,ref_crc32.0:14,ref_crc32.1:300,default_read_exact:10,decompress:4,scripted_block_header:5,read_block_empty:10,spec_fill:8200 mem_gb=12 timeout=900 native=no
//@ bound: read_block with the header parser replaced by its contract: 12-byte header, EMPTY content (LZMA2 end byte only), CRC32 check field symbolic
#[cfg_attr(kani, kani::proof)]
#[cfg_attr(kani, kani::stub(std::fmt::format, crate::verif_common::stub_format))]
#[cfg_attr(kani, kani::stub(std::io::Error::is_interrupted, crate::verif_common::stub_not_interrupted))]
#[cfg_attr(kani, kani::stub(crate::decode::xz::read_block_header, crate::decode::xz::verif_h::scripted_block_header))]
#[cfg_attr(kani, kani::stub(crate::decode::lzma::DecoderState::new, crate::decode::stream::verif_h::new_scripted_lit))]
#[cfg_attr(kani, kani::stub(crate::decode::lzbuffer::LzAccumBuffer::from_stream, crate::decode::lzbuffer::verif_h::accum_from_stream_with_capacity))]
pub fn xzblk_read_block_empty_crc32() {
    read_block_empty::<1>()
}

//@ harness props=C03,C06,C07,C18 tier=quick unwind=6 unwindset=update_table:300,ref_crc32.0:14,ref_crc32.1:300,default_read_exact:10,decompress:4,scripted_block_header:5,read_block_empty:10,spec_fill:8200 mem_gb=12 timeout=900 native=no
//@ bound: read_block with the header parser replaced by its contract: 12-byte header, EMPTY content (LZMA2 end byte only), CRC64 check field symbolic
#[cfg_attr(kani, kani::proof)]
#[cfg_attr(kani, kani::stub(std::fmt::format, crate::verif_common::stub_format))]
#[cfg_attr(kani, kani::stub(std::io::Error::is_interrupted, crate::verif_common::stub_not_interrupted))]
#[cfg_attr(kani, kani::stub(crate::decode::xz::read_block_header, crate::decode::xz::verif_h::scripted_block_header))]
#[cfg_attr(kani, kani::stub(crate::decode::lzma::DecoderState::new, crate::decode::stream::verif_h::new_scripted_lit))]
#[cfg_attr(kani, kani::stub(crate::decode::lzbuffer::LzAccumBuffer::from_stream, crate::decode::lzbuffer::verif_h::accum_from_stream_with_capacity))]
pub fn xzblk_read_block_empty_crc64() {
    read_block_empty::<4>()
}


//@ harness props=C18,C03,C07 tier=quick unwind=8 unwindset=default_read_exact:4,flush_zero_padding:10 mem_gb=6 timeout=600
//@ bound: read_block_header directly with a FIVE-byte multibyte filter id (low 7 bits and bits 28..34 symbolic, the middle groups zero), flags 0, one property byte, padding zero: accepted only for id 0x21 (no truncation to 32 bits)
#[cfg_attr(kani, kani::proof)]
#[cfg_attr(kani, kani::stub(std::fmt::format, crate::verif_common::stub_format))]
#[cfg_attr(kani, kani::stub(std::io::Error::is_interrupted, crate::verif_common::stub_not_interrupted))]
pub fn xzblk_header_five_byte_filter_id() {
    let mut t = Tape::<16>::new();
    let lo = t.u8() & 0x7F;
    let hi = t.u8() & 0x7F;
    let prop = t.u8();
    // flags, id (5 bytes), size of properties, property, 3 padding bytes = 11 bytes (+ size byte = 12)
    let f = [0x00u8, 0x80 | lo, 0x80, 0x80, 0x80, hi, 0x01, prop, 0, 0, 0, 0xEE];
    // the reader ends with the header (in read_block it is a Take of the header size): the
    // padding scan runs to its end
    let mut rd = ArrReader::<12>::new(f, 11);
    let r = read_block_header(&mut rd, 11);
    let id = (lo as u64) | ((hi as u64) << 28);
    match &r {
        Ok(_) => {
            vassert!(id == 0x21, "block header: a filter id other than LZMA2 (0x21) is refused, whatever its encoding length");
        }
        Err(_) => {
            vassert!(id != 0x21, "block header: the LZMA2 filter id is accepted also in a non-minimal encoding");
        }
    }
    vcover!(id == 0x1_0000_0021, "id_2pow32_plus_0x21");
    vcover!(r.is_ok(), "five_byte_id_ok");
    forget(r);
}


//@ harness props=C03,C12,C07 tier=quick unwind=6 unwindset=update_table:300,ref_crc32.0:14,ref_crc32.1:300,default_read_exact:10,decompress:4,scripted_block_header:5,spec_fill:8200,RecSink.*write_all:6 mem_gb=12 timeout=900 native=no
//@ bound: read_block with the header parser replaced by its contract: 12-byte header, one uncompressed LZMA2 chunk of 2 symbolic bytes, no check, output sink accepting ONE byte per write call: the whole block content reaches the sink
#[cfg_attr(kani, kani::proof)]
#[cfg_attr(kani, kani::stub(std::fmt::format, crate::verif_common::stub_format))]
#[cfg_attr(kani, kani::stub(std::io::Error::is_interrupted, crate::verif_common::stub_not_interrupted))]
#[cfg_attr(kani, kani::stub(crate::decode::xz::read_block_header, crate::decode::xz::verif_h::scripted_block_header))]
#[cfg_attr(kani, kani::stub(crate::decode::lzma::DecoderState::new, crate::decode::stream::verif_h::new_scripted_lit))]
#[cfg_attr(kani, kani::stub(crate::decode::lzbuffer::LzAccumBuffer::from_stream, crate::decode::lzbuffer::verif_h::accum_from_stream_with_capacity))]
pub fn xzblk_read_block_short_sink() {
    let mut t = Tape::<16>::new();
    let d0 = t.u8();
    let d1 = t.u8();
    BH_PACKED.store(u64::MAX, Ordering::Relaxed);
    BH_UNPACKED.store(u64::MAX, Ordering::Relaxed);
    BH_PRESENT.store(0, Ordering::Relaxed);
    let mut f = [0u8; 32];
    f[0] = 3;
    f[1] = 0x00;
    f[2] = 0x21;
    f[3] = 0x01;
    f[4] = 0x16;
    let c = ref_crc32(&f[0..12]).to_le_bytes();
    f[12] = c[0];
    f[13] = c[1];
    f[14] = c[2];
    f[15] = c[3];
    f[16] = 1;
    f[17] = 0;
    f[18] = 1;
    f[19] = d0;
    f[20] = d1;
    f[21] = 0;
    // 12 + 4 + 6 = 22 bytes -> 2 bytes of block padding, no check
    let total = 24;
    f[total] = 0xEE;
    let mut rd = ArrReader::<32>::new(f, total + 1);
    let mut sink = RecSink::<4>::new();
    sink.short = 1;
    let mut records: Vec<Record> = Vec::with_capacity(2);
    let (ok, counted) = {
        let mut ci = util::CountBufRead::new(&mut rd);
        let hb = ci.read_u8();
        forget(hb);
        let r = read_block(&mut ci, &mut sink, CheckMethod::None, &mut records, 3);
        let ok = r.is_ok();
        forget(r);
        (ok, ci.count())
    };
    vassert!(ok, "read_block: a well-formed block decodes into a sink that accepts partial writes");
    vassert!(sink.len == 2 && sink.buf[0] == d0 && sink.buf[1] == d1, "read_block: the block's content is written to the output in full, also when the sink accepts only part of each write");
    vassert!(counted == total && rd.pos == total, "read_block: consumes header, payload, padding and check, nothing more");
    vcover!(true, "end_reached");
    forget(records);
}
