// Harnesses over src/decode/lzbuffer.rs: inductive steps on the two LZ windows.
// An arbitrary window state satisfying the representation invariant is built by struct
// literal from a flat history `hist` (the last H bytes produced); one operation is applied;
// the result is compared with the flat model and the invariant is re-established.
// Shapes (dict size D, cursor, first lap / full) are concrete per instance; contents, lap
// count, copy length, distance and memlimit are symbolic.
#![allow(dead_code, unused_imports, unused_variables, unused_mut)]

use super::*;
use crate::verif_common::*;

pub const H: usize = 8;

/// Build a circular window with dictionary D, cursor C, holding `valid` bytes of history
/// (valid = D for a full window, C on the first lap).
fn mk_circ<const D: usize, const C: usize, const S: usize>(
    hist: &[u8; H],
    full: bool,
    len: usize,
    memlimit: usize,
    sink: RecSink<S>,
) -> LzCircularBuffer<RecSink<S>> {
    let n = if full { D } else { C };
    let mut v: Vec<u8> = Vec::with_capacity(D);
    let mut i = 0;
    while i < n {
        // physical slot i holds the byte written (C - i) bytes ago if i < C,
        // else the byte written (C + D - i) bytes ago
        let back = if i < C { C - i } else { C + D - i };
        v.push(hist[H - back]);
        i += 1;
    }
    LzCircularBuffer {
        stream: sink,
        buf: v,
        dict_size: D,
        memlimit,
        cursor: C,
        len,
    }
}

/// Invariant + content check of a circular window against the flat history `flat` whose
/// last element is the newest byte; FL = flat length used, `total` = bytes ever produced.
fn circ_matches<const D: usize, const S: usize, const FL: usize>(
    b: &LzCircularBuffer<RecSink<S>>,
    flat: &[u8; FL],
    newest: usize, // number of valid entries in flat (flat[newest-1] is the newest byte)
    total: usize,
) -> bool {
    let mut ok = b.dict_size == D && b.cursor < D && b.cursor == total % D && b.len == total;
    let held = if total < D { total } else { D };
    ok = ok && b.buf.len() == held;
    let mut j = 1;
    while j <= D {
        if j <= held {
            let slot = (b.cursor + D - j) % D;
            ok = ok && slot < b.buf.len() && b.buf[slot] == flat[newest - j];
        }
        j += 1;
    }
    ok
}

/// append_lz on a FULL window (len >= D): symbolic contents, lap count, copy length <= 3,
/// distance in 0..=usize::MAX (0 is excluded: callers pass rep+1 >= 1), memlimit >= D.
fn circ_lz_full<const D: usize, const C: usize>() {
    let mut t = Tape::<40>::new();
    let hist: [u8; H] = t.bytes::<H>();
    let lap = t.u32() as usize;
    let n = (t.u8() % 4) as usize;
    let dist = t.usize();
    let memlimit = t.usize();
    assume(lap >= 1);
    assume(dist >= 1);
    assume(memlimit >= D);
    let len = lap * D + C;
    let mut b = mk_circ::<D, C, 8>(&hist, true, len, memlimit, RecSink::<8>::new());
    let r = b.append_lz(n, dist);
    let legal = dist <= D; // len >= D here
    vassert!(r.is_ok() == legal, "circ.append_lz(full): Ok iff dist <= min(len, dict)");
    // flat model
    let mut flat = [0u8; H + 3];
    let mut i = 0;
    while i < H {
        flat[i] = hist[i];
        i += 1;
    }
    if legal {
        let mut k = 0;
        while k < 3 {
            if k < n {
                flat[H + k] = flat[H + k - dist];
            }
            k += 1;
        }
        let ok = circ_matches::<D, 8, { H + 3 }>(&b, &flat, H + n, len + n);
        vassert!(ok, "circ.append_lz(full): window equals flat model, invariant re-established");
        // sink: every completed lap flushes the D bytes of the window, in order
        let wraps = (C + n) / D;
        vassert!(b.stream.len == wraps * D, "circ.append_lz(full): flushes exactly one dictionary per wrap");
        let mut q = 0;
        while q < 8 {
            if q < b.stream.len {
                vassert!(b.stream.buf[q] == flat[H - C + q], "circ.append_lz(full): flushed bytes are the history bytes in order");
            }
            q += 1;
        }
        vcover!(wraps >= 1 && n == 3, "wrap_inside_copy");
        vcover!(dist == D && n == 3, "dist_eq_dict_overlap");
        vcover!(dist == 1 && n == 3, "rle");
    } else {
        let ok = circ_matches::<D, 8, { H + 3 }>(&b, &flat, H, len);
        vassert!(ok, "circ.append_lz(full): rejected copy changes nothing");
        vassert!(b.stream.len == 0 && b.stream.writes == 0, "circ.append_lz(full): rejected copy writes nothing");
        vcover!(dist == D + 1, "dist_dict_plus_1_rejected");
    }
    vassert!(b.buf.len() <= memlimit, "circ: never buffers more than memlimit");
    forget(r);
    forget(b);
}

/// last_n / last_or on a FULL window.
fn circ_last_full<const D: usize, const C: usize>() {
    let mut t = Tape::<40>::new();
    let hist: [u8; H] = t.bytes::<H>();
    let lap = t.u32() as usize;
    let dist = t.usize();
    assume(lap >= 1);
    assume(dist >= 1);
    let len = lap * D + C;
    let b = mk_circ::<D, C, 8>(&hist, true, len, usize::MAX, RecSink::<8>::new());
    let r = b.last_n(dist);
    match &r {
        Ok(x) => {
            vassert!(dist <= D, "circ.last_n(full): Ok only within the dictionary");
            vassert!(*x == hist[H - dist], "circ.last_n(full): returns the byte dist back");
            vcover!(dist == D, "last_n_eq_dict");
        }
        Err(_) => {
            vassert!(dist > D, "circ.last_n(full): Err only beyond the dictionary");
        }
    }
    vassert!(b.last_or(0x5A) == hist[H - 1], "circ.last_or(full): newest byte");
    forget(r);
    forget(b);
}

/// First lap (len == cursor < D): one append_literal with symbolic memlimit, and
/// append_lz with a concrete length N (growth path: one byte per push).
fn circ_first_lap<const D: usize, const C: usize, const N: usize, const SYMLIM: bool>() {
    let mut t = Tape::<40>::new();
    let hist: [u8; H] = t.bytes::<H>();
    let dist = t.usize();
    let memlimit = if SYMLIM { t.usize() } else { usize::MAX };
    let lit = t.u8();
    let do_lit = t.bool();
    assume(dist >= 1);
    assume(memlimit >= C); // reachable states only: buf.len() == C <= memlimit
    let mut b = mk_circ::<D, C, 8>(&hist, false, C, memlimit, RecSink::<8>::new());
    let mut flat = [0u8; H + 3];
    let mut i = 0;
    while i < H {
        flat[i] = hist[i];
        i += 1;
    }
    if do_lit {
        let r = b.append_literal(lit);
        // window needed after the byte: min(D, C+1) = C+1 (C < D)
        let fits = C + 1 <= memlimit;
        vassert!(r.is_ok() == fits, "circ.append_literal(first lap): Ok iff min(dict,len+1) <= memlimit");
        if fits {
            flat[H] = lit;
            let ok = circ_matches::<D, 8, { H + 3 }>(&b, &flat, H + 1, C + 1);
            vassert!(ok, "circ.append_literal(first lap): window equals flat model");
            let wraps = (C + 1) / D;
            vassert!(b.stream.len == wraps * D, "circ.append_literal: flush exactly at wrap");
            vcover!(wraps == 1, "lit_wrap");
        } else {
            let ok = circ_matches::<D, 8, { H + 3 }>(&b, &flat, H, C);
            vassert!(ok, "circ.append_literal(first lap): memlimit error changes nothing");
            vassert!(b.stream.writes == 0, "circ.append_literal: memlimit error writes nothing");
            vcover!(true, "memlimit_hit");
        }
        forget(r);
    } else {
        let r = b.append_lz(N, dist);
        let legal = dist <= C; // len == C < D
        if !legal {
            vassert!(r.is_err(), "circ.append_lz(first lap): dist beyond produced bytes is rejected");
            let ok = circ_matches::<D, 8, { H + 3 }>(&b, &flat, H, C);
            vassert!(ok, "circ.append_lz(first lap): rejected copy changes nothing");
            vassert!(b.stream.writes == 0, "circ.append_lz(first lap): rejected copy writes nothing");
            vcover!(dist == C + 1, "dist_len_plus_1_rejected");
        } else {
            // bytes needed: min(D, C+N)
            let need = if C + N < D { C + N } else { D };
            let fits = need <= memlimit;
            vassert!(r.is_ok() == fits, "circ.append_lz(first lap): Ok iff min(dict,len+n) <= memlimit");
            if fits {
                let mut k = 0;
                while k < N {
                    flat[H + k] = flat[H + k - dist];
                    k += 1;
                }
                let ok = circ_matches::<D, 8, { H + 3 }>(&b, &flat, H + N, C + N);
                vassert!(ok, "circ.append_lz(first lap): window equals flat model (no zero fill, no stale byte)");
                vcover!(true, "first_lap_copy_ok");
            }
        }
        forget(r);
    }
    vassert!(b.buf.len() <= memlimit, "circ: never buffers more than memlimit");
    forget(b);
}

/// finish(): flushes buf[0..cursor] then flush(); failing sink propagates.
fn circ_finish<const D: usize, const C: usize>() {
    let mut t = Tape::<40>::new();
    let hist: [u8; H] = t.bytes::<H>();
    let lap = t.u32() as usize;
    let fail = t.bool();
    assume(lap >= 1);
    let len = lap * D + C;
    let sink = if fail { RecSink::<8>::failing(0) } else { RecSink::<8>::new() };
    let b = mk_circ::<D, C, 8>(&hist, true, len, usize::MAX, sink);
    let r = b.finish();
    match &r {
        Ok(s) => {
            vassert!(!fail || C == 0, "circ.finish: a failing write is reported");
            vassert!(s.len == C, "circ.finish: writes exactly the pending bytes");
            let mut q = 0;
            while q < C {
                vassert!(s.buf[q] == hist[H - C + q], "circ.finish: pending bytes in order");
                q += 1;
            }
            vassert!(s.flushes == 1 && s.flushed_len == C, "circ.finish: flushes the sink after writing");
            vcover!(true, "finish_ok");
        }
        Err(_) => {
            vassert!(fail && C > 0, "circ.finish: Err only when the sink failed");
            vcover!(true, "finish_err");
        }
    }
    forget(r);
}

/// Wrap flush with a failing sink: append_literal at cursor == D-1 must report the failure.
fn circ_wrap_fail<const D: usize>() {
    let mut t = Tape::<40>::new();
    let hist: [u8; H] = t.bytes::<H>();
    let lap = t.u32() as usize;
    let lit = t.u8();
    assume(lap >= 1);
    let len = lap * D + (D - 1);
    let sink = RecSink::<8>::failing(0);
    // cursor = D-1: built through the generic helper needs a const; do it by hand
    let mut v: Vec<u8> = Vec::with_capacity(D);
    let mut i = 0;
    while i < D {
        v.push(hist[i]);
        i += 1;
    }
    let mut b = LzCircularBuffer {
        stream: sink,
        buf: v,
        dict_size: D,
        memlimit: usize::MAX,
        cursor: D - 1,
        len,
    };
    let r = b.append_literal(lit);
    vassert!(r.is_err(), "circ.append_literal: failing flush at wrap is an error");
    vassert!(b.stream.len == 0, "circ.append_literal: nothing recorded as written by a failed sink");
    vcover!(r.is_err(), "wrap_fail");
    forget(r);
    forget(b);
}

// ----- accumulating window ---------------------------------------------------------------

fn mk_accum<const L: usize, const S: usize>(hist: &[u8; H], memlimit: usize, sink: RecSink<S>) -> LzAccumBuffer<RecSink<S>> {
    let mut v: Vec<u8> = Vec::with_capacity(L + 4);
    let mut i = 0;
    while i < L {
        v.push(hist[H - L + i]);
        i += 1;
    }
    LzAccumBuffer {
        stream: sink,
        buf: v,
        memlimit,
        len: L,
    }
}

/// append_lz / last_n / append_literal on an accumulating window holding L bytes.
fn accum_step<const L: usize, const N: usize>() {
    let mut t = Tape::<40>::new();
    let hist: [u8; H] = t.bytes::<H>();
    let dist = t.usize();
    let op = t.u8() % 3;
    let lit = t.u8();
    assume(dist >= 1);
    let mut b = mk_accum::<L, 8>(&hist, usize::MAX, RecSink::<8>::new());
    let mut flat = [0u8; H + 3];
    let mut i = 0;
    while i < H {
        flat[i] = hist[i];
        i += 1;
    }
    if op == 0 {
        let r = b.append_lz(N, dist);
        let legal = dist <= L;
        vassert!(r.is_ok() == legal, "accum.append_lz: Ok iff dist <= bytes since last dictionary reset");
        if legal {
            let mut k = 0;
            while k < N {
                flat[H + k] = flat[H + k - dist];
                k += 1;
            }
            vassert!(b.buf.len() == L + N && b.len == L + N, "accum.append_lz: length bookkeeping");
            let mut j = 1;
            while j <= L + N {
                vassert!(b.buf[L + N - j] == flat[H + N - j], "accum.append_lz: window equals flat model");
                j += 1;
            }
            vcover!(dist == L, "accum_dist_eq_len");
        } else {
            vassert!(b.buf.len() == L && b.len == L, "accum.append_lz: rejected copy changes nothing");
            vcover!(dist == L + 1, "accum_dist_len_plus_1_rejected");
        }
        vassert!(b.stream.writes == 0, "accum.append_lz: nothing reaches the sink before reset/finish");
        forget(r);
    } else if op == 1 {
        let r = b.last_n(dist);
        match &r {
            Ok(x) => {
                vassert!(dist <= L, "accum.last_n: Ok only within the window");
                vassert!(*x == hist[H - dist], "accum.last_n: the byte dist back");
            }
            Err(_) => {
                vassert!(dist > L, "accum.last_n: Err only beyond the window");
            }
        }
        vassert!(b.last_or(0xA5) == if L == 0 { 0xA5 } else { hist[H - 1] }, "accum.last_or");
        forget(r);
    } else {
        let r = b.append_literal(lit);
        vassert!(r.is_ok(), "accum.append_literal: Ok without a limit");
        vassert!(b.buf.len() == L + 1 && b.len == L + 1 && b.buf[L] == lit, "accum.append_literal: appended");
        forget(r);
    }
    forget(b);
}

/// reset() and finish() of the accumulating window, with an optionally failing sink.
fn accum_reset_finish<const L: usize>() {
    let mut t = Tape::<40>::new();
    let hist: [u8; H] = t.bytes::<H>();
    let fail = t.bool();
    let do_reset = t.bool();
    let sink = if fail { RecSink::<8>::failing(0) } else { RecSink::<8>::new() };
    let mut b = mk_accum::<L, 8>(&hist, usize::MAX, sink);
    if do_reset {
        let r = b.reset();
        vassert!(r.is_ok() == !fail, "accum.reset: reports a failing sink");
        if r.is_ok() {
            vassert!(b.len == 0 && b.buf.len() == 0, "accum.reset: window emptied");
            vassert!(b.stream.len == L, "accum.reset: everything before the reset handed to the sink");
            let mut q = 0;
            while q < L {
                vassert!(b.stream.buf[q] == hist[H - L + q], "accum.reset: bytes in order");
                q += 1;
            }
            vcover!(true, "reset_ok");
        }
        forget(r);
        forget(b);
    } else {
        let r = b.finish();
        match &r {
            Ok(s) => {
                vassert!(!fail, "accum.finish: a failing write is reported");
                vassert!(s.len == L, "accum.finish: all bytes written");
                let mut q = 0;
                while q < L {
                    vassert!(s.buf[q] == hist[H - L + q], "accum.finish: bytes in order");
                    q += 1;
                }
                vassert!(s.flushes == 1 && s.flushed_len == L, "accum.finish: sink flushed after the data");
                vcover!(true, "accum_finish_ok");
            }
            Err(_) => {
                vassert!(fail, "accum.finish: Err only when the sink failed");
                vcover!(true, "accum_finish_err");
            }
        }
        forget(r);
    }
}

// ----- instances --------------------------------------------------------------------------

//@ harness props=C09,C10,C01,C07,C16 tier=quick unwind=12 mem_gb=4 timeout=600
//@ bound: circular window D=3 cursor=1 full (any lap count), copy length<=3, dist 1..=usize::MAX, memlimit>=D
#[cfg_attr(kani, kani::proof)]
#[cfg_attr(kani, kani::stub(std::fmt::format, crate::verif_common::stub_format))]
#[cfg_attr(kani, kani::stub(std::io::Error::is_interrupted, crate::verif_common::stub_not_interrupted))]
pub fn circ_lz_full_d3_c1() {
    circ_lz_full::<3, 1>()
}

//@ harness props=C09,C10,C01,C07,C16 tier=quick unwind=12 mem_gb=4 timeout=600
//@ bound: circular window D=3 cursor=0 full, copy length<=3, any dist
#[cfg_attr(kani, kani::proof)]
#[cfg_attr(kani, kani::stub(std::fmt::format, crate::verif_common::stub_format))]
#[cfg_attr(kani, kani::stub(std::io::Error::is_interrupted, crate::verif_common::stub_not_interrupted))]
pub fn circ_lz_full_d3_c0() {
    circ_lz_full::<3, 0>()
}

//@ harness props=C09,C10,C01,C07 tier=quick unwind=12 mem_gb=4 timeout=600
//@ bound: circular window D=3 cursor=2 full, copy length<=3, any dist
#[cfg_attr(kani, kani::proof)]
#[cfg_attr(kani, kani::stub(std::fmt::format, crate::verif_common::stub_format))]
#[cfg_attr(kani, kani::stub(std::io::Error::is_interrupted, crate::verif_common::stub_not_interrupted))]
pub fn circ_lz_full_d3_c2() {
    circ_lz_full::<3, 2>()
}

//@ harness props=C09,C01,C07 tier=quick unwind=12 mem_gb=4 timeout=600
//@ bound: circular window D=2 cursor=1 full, copy length<=3, any dist
#[cfg_attr(kani, kani::proof)]
#[cfg_attr(kani, kani::stub(std::fmt::format, crate::verif_common::stub_format))]
#[cfg_attr(kani, kani::stub(std::io::Error::is_interrupted, crate::verif_common::stub_not_interrupted))]
pub fn circ_lz_full_d2_c1() {
    circ_lz_full::<2, 1>()
}

//@ harness props=C09,C01,C07 tier=quick unwind=12 mem_gb=4 timeout=600
//@ bound: circular window D=1 cursor=0 full, copy length<=3, any dist
#[cfg_attr(kani, kani::proof)]
#[cfg_attr(kani, kani::stub(std::fmt::format, crate::verif_common::stub_format))]
#[cfg_attr(kani, kani::stub(std::io::Error::is_interrupted, crate::verif_common::stub_not_interrupted))]
pub fn circ_lz_full_d1_c0() {
    circ_lz_full::<1, 0>()
}

//@ harness props=C09,C01 tier=thorough unwind=12 mem_gb=6 timeout=1200
//@ bound: circular window D=4 cursor=3 full, copy length<=3, any dist
#[cfg_attr(kani, kani::proof)]
#[cfg_attr(kani, kani::stub(std::fmt::format, crate::verif_common::stub_format))]
#[cfg_attr(kani, kani::stub(std::io::Error::is_interrupted, crate::verif_common::stub_not_interrupted))]
pub fn circ_lz_full_d4_c3() {
    circ_lz_full::<4, 3>()
}

//@ harness props=C09,C01 tier=thorough unwind=12 mem_gb=6 timeout=1200
//@ bound: circular window D=6 cursor=4 full, copy length<=3, any dist
#[cfg_attr(kani, kani::proof)]
#[cfg_attr(kani, kani::stub(std::fmt::format, crate::verif_common::stub_format))]
#[cfg_attr(kani, kani::stub(std::io::Error::is_interrupted, crate::verif_common::stub_not_interrupted))]
pub fn circ_lz_full_d6_c4() {
    circ_lz_full::<6, 4>()
}

//@ harness props=C09,C01,C04,C15 tier=quick unwind=12 mem_gb=4 timeout=600
//@ bound: last_n/last_or on circular window D=3 cursor=1 full, any dist
#[cfg_attr(kani, kani::proof)]
#[cfg_attr(kani, kani::stub(std::fmt::format, crate::verif_common::stub_format))]
#[cfg_attr(kani, kani::stub(std::io::Error::is_interrupted, crate::verif_common::stub_not_interrupted))]
pub fn circ_last_full_d3_c1() {
    circ_last_full::<3, 1>()
}

//@ harness props=C09,C01,C04,C15 tier=quick unwind=12 mem_gb=4 timeout=600
//@ bound: last_n/last_or on circular window D=2 cursor=0 full, any dist
#[cfg_attr(kani, kani::proof)]
#[cfg_attr(kani, kani::stub(std::fmt::format, crate::verif_common::stub_format))]
#[cfg_attr(kani, kani::stub(std::io::Error::is_interrupted, crate::verif_common::stub_not_interrupted))]
pub fn circ_last_full_d2_c0() {
    circ_last_full::<2, 0>()
}

//@ harness props=C09,C10,C07,C04 tier=quick unwind=12 mem_gb=6 timeout=900 opt_covers=lit_wrap
//@ bound: first lap D=3 cursor=1: append_literal (any memlimit) or append_lz(len 1, any dist, any memlimit)
#[cfg_attr(kani, kani::proof)]
#[cfg_attr(kani, kani::stub(std::fmt::format, crate::verif_common::stub_format))]
#[cfg_attr(kani, kani::stub(std::io::Error::is_interrupted, crate::verif_common::stub_not_interrupted))]
pub fn circ_first_lap_d3_c1_n1() {
    circ_first_lap::<3, 1, 1, true>()
}

//@ harness props=C09,C10,C07 tier=quick unwind=12 mem_gb=6 timeout=900 opt_covers=lit_wrap,memlimit_hit
//@ bound: first lap D=4 cursor=2: append_literal (any memlimit) or append_lz(len 2, any dist, no memlimit)
#[cfg_attr(kani, kani::proof)]
#[cfg_attr(kani, kani::stub(std::fmt::format, crate::verif_common::stub_format))]
#[cfg_attr(kani, kani::stub(std::io::Error::is_interrupted, crate::verif_common::stub_not_interrupted))]
pub fn circ_first_lap_d4_c2_n2() {
    circ_first_lap::<4, 2, 2, false>()
}

//@ harness props=C09,C10,C04 tier=quick unwind=12 mem_gb=6 timeout=900 opt_covers=memlimit_hit
//@ bound: first lap D=2 cursor=1: append_literal / append_lz(len 2) crossing the first wrap, no memlimit
#[cfg_attr(kani, kani::proof)]
#[cfg_attr(kani, kani::stub(std::fmt::format, crate::verif_common::stub_format))]
#[cfg_attr(kani, kani::stub(std::io::Error::is_interrupted, crate::verif_common::stub_not_interrupted))]
pub fn circ_first_lap_d2_c1_n2() {
    circ_first_lap::<2, 1, 2, false>()
}

//@ harness props=C09,C10 tier=quick unwind=12 mem_gb=6 timeout=900 opt_covers=lit_wrap,first_lap_copy_ok
//@ bound: first lap D=3 cursor=0 (empty window): append_literal / append_lz(len 1) - every dist is out of range
#[cfg_attr(kani, kani::proof)]
#[cfg_attr(kani, kani::stub(std::fmt::format, crate::verif_common::stub_format))]
#[cfg_attr(kani, kani::stub(std::io::Error::is_interrupted, crate::verif_common::stub_not_interrupted))]
pub fn circ_first_lap_d3_c0_n1() {
    circ_first_lap::<3, 0, 1, true>()
}

//@ harness props=C12,C01,C15 tier=quick unwind=12 mem_gb=4 timeout=600
//@ bound: LzCircularBuffer::finish D=3 cursor=2, sink failing or not
#[cfg_attr(kani, kani::proof)]
#[cfg_attr(kani, kani::stub(std::fmt::format, crate::verif_common::stub_format))]
#[cfg_attr(kani, kani::stub(std::io::Error::is_interrupted, crate::verif_common::stub_not_interrupted))]
pub fn circ_finish_d3_c2() {
    circ_finish::<3, 2>()
}

//@ harness props=C12 tier=quick unwind=12 mem_gb=4 timeout=600 opt_covers=finish_err
//@ bound: LzCircularBuffer::finish D=3 cursor=0 (nothing pending), sink failing or not
#[cfg_attr(kani, kani::proof)]
#[cfg_attr(kani, kani::stub(std::fmt::format, crate::verif_common::stub_format))]
#[cfg_attr(kani, kani::stub(std::io::Error::is_interrupted, crate::verif_common::stub_not_interrupted))]
pub fn circ_finish_d3_c0() {
    circ_finish::<3, 0>()
}

//@ harness props=C12 tier=quick unwind=12 mem_gb=4 timeout=600
//@ bound: wrap flush into a failing sink, D=3
#[cfg_attr(kani, kani::proof)]
#[cfg_attr(kani, kani::stub(std::fmt::format, crate::verif_common::stub_format))]
#[cfg_attr(kani, kani::stub(std::io::Error::is_interrupted, crate::verif_common::stub_not_interrupted))]
pub fn circ_wrap_fail_d3() {
    circ_wrap_fail::<3>()
}

//@ harness props=C09,C02,C07 tier=quick unwind=12 mem_gb=6 timeout=900
//@ bound: accumulating window holding 3 bytes: append_lz(len 2, any dist) / last_n(any dist) / append_literal
#[cfg_attr(kani, kani::proof)]
#[cfg_attr(kani, kani::stub(std::fmt::format, crate::verif_common::stub_format))]
#[cfg_attr(kani, kani::stub(std::io::Error::is_interrupted, crate::verif_common::stub_not_interrupted))]
pub fn accum_step_l3_n2() {
    accum_step::<3, 2>()
}

//@ harness props=C09,C02 tier=quick unwind=12 mem_gb=6 timeout=900 opt_covers=accum_dist_eq_len
//@ bound: accumulating window holding 0 bytes (just reset): every copy is rejected
#[cfg_attr(kani, kani::proof)]
#[cfg_attr(kani, kani::stub(std::fmt::format, crate::verif_common::stub_format))]
#[cfg_attr(kani, kani::stub(std::io::Error::is_interrupted, crate::verif_common::stub_not_interrupted))]
pub fn accum_step_l0_n1() {
    accum_step::<0, 1>()
}

//@ harness props=C09,C02 tier=quick unwind=12 mem_gb=6 timeout=900
//@ bound: accumulating window holding 1 byte: append_lz(len 3, any dist) (RLE overlap)
#[cfg_attr(kani, kani::proof)]
#[cfg_attr(kani, kani::stub(std::fmt::format, crate::verif_common::stub_format))]
#[cfg_attr(kani, kani::stub(std::io::Error::is_interrupted, crate::verif_common::stub_not_interrupted))]
pub fn accum_step_l1_n3() {
    accum_step::<1, 3>()
}

//@ harness props=C12,C02,C07,C09 tier=quick unwind=12 mem_gb=4 timeout=600
//@ bound: LzAccumBuffer::{reset,finish} with 3 buffered bytes, sink failing or not
#[cfg_attr(kani, kani::proof)]
#[cfg_attr(kani, kani::stub(std::fmt::format, crate::verif_common::stub_format))]
#[cfg_attr(kani, kani::stub(std::io::Error::is_interrupted, crate::verif_common::stub_not_interrupted))]
pub fn accum_reset_finish_l3() {
    accum_reset_finish::<3>()
}

//@ harness props=C09 tier=quick unwind=12 mem_gb=2 timeout=300 expect_fail=sanity
//@ bound: vacuity twin
#[cfg_attr(kani, kani::proof)]
#[cfg_attr(kani, kani::stub(std::fmt::format, crate::verif_common::stub_format))]
#[cfg_attr(kani, kani::stub(std::io::Error::is_interrupted, crate::verif_common::stub_not_interrupted))]
pub fn lzbuffer_sanity_twin() {
    let mut t = Tape::<40>::new();
    let hist: [u8; H] = t.bytes::<H>();
    let mut b = mk_circ::<3, 1, 8>(&hist, true, 4, usize::MAX, RecSink::<8>::new());
    let r = b.append_lz(2, 1);
    forget(r);
    forget(b);
    vassert!(false, "sanity");
}

/// Stub for `LzAccumBuffer::from_stream`: same value, but the buffer starts with spare
/// capacity so that the few bytes a harness appends never enter Vec's growth path (measured
/// to dominate every query that reaches it; growth is alloc's business, not lzma-rs's).
pub fn accum_from_stream_with_capacity<W: io::Write>(stream: W, memlimit: usize) -> LzAccumBuffer<W> {
    LzAccumBuffer {
        stream,
        buf: Vec::with_capacity(32),
        memlimit,
        len: 0,
    }
}
pub fn accum_buf_len<W: io::Write>(a: &LzAccumBuffer<W>) -> usize {
    a.buf.len()
}


/// Stub for `LzCircularBuffer::from_stream`: same value, buffer with spare capacity (see
/// accum_from_stream_with_capacity).
pub fn circ_from_stream_with_capacity<W: io::Write>(stream: W, dict_size: usize, memlimit: usize) -> LzCircularBuffer<W> {
    LzCircularBuffer {
        stream,
        buf: Vec::with_capacity(16),
        dict_size,
        memlimit,
        cursor: 0,
        len: 0,
    }
}
pub static OBS_CIRC_DICT: std::sync::atomic::AtomicUsize = std::sync::atomic::AtomicUsize::new(0);
pub static OBS_CIRC_MEMLIMIT: std::sync::atomic::AtomicUsize = std::sync::atomic::AtomicUsize::new(0);
pub static OBS_CIRC_CALLS: std::sync::atomic::AtomicUsize = std::sync::atomic::AtomicUsize::new(0);
/// Observer stub for `LzCircularBuffer::from_stream`: the dictionary size and memory limit the
/// caller passed are recorded (the one-shot entry points build the window from the header and
/// the options; nothing else shows which limit reached it); the window itself is then built with
/// CONCRETE parameters (4096, unlimited) - with symbolic ones the rest of the decode runs out of
/// memory, and what the window does with them is decided in the circ_* harnesses.
pub fn circ_from_stream_observed<W: io::Write>(stream: W, dict_size: usize, memlimit: usize) -> LzCircularBuffer<W> {
    use std::sync::atomic::Ordering::Relaxed;
    OBS_CIRC_DICT.store(dict_size, Relaxed);
    OBS_CIRC_MEMLIMIT.store(memlimit, Relaxed);
    OBS_CIRC_CALLS.store(OBS_CIRC_CALLS.load(Relaxed) + 1, Relaxed);
    circ_from_stream_with_capacity(stream, 4096, usize::MAX)
}
pub fn circ_memlimit<W: io::Write>(b: &LzCircularBuffer<W>) -> usize {
    b.memlimit
}
pub fn circ_dict_size<W: io::Write>(b: &LzCircularBuffer<W>) -> usize {
    b.dict_size
}
pub fn circ_total<W: io::Write>(b: &LzCircularBuffer<W>) -> usize {
    b.len
}


//@ harness props=C02,C09 tier=quick unwind=12 mem_gb=4 timeout=600
//@ bound: LzAccumBuffer::append_bytes(2 symbolic bytes) on a window holding 3 bytes: length bookkeeping and contents, then a copy reaching into both parts
#[cfg_attr(kani, kani::proof)]
#[cfg_attr(kani, kani::stub(std::fmt::format, crate::verif_common::stub_format))]
#[cfg_attr(kani, kani::stub(std::io::Error::is_interrupted, crate::verif_common::stub_not_interrupted))]
pub fn accum_append_bytes_l3() {
    let mut t = Tape::<40>::new();
    let hist: [u8; H] = t.bytes::<H>();
    let extra = [t.u8(), t.u8()];
    let dist = t.usize();
    assume(dist >= 1);
    let mut b = mk_accum::<3, 8>(&hist, usize::MAX, RecSink::<8>::new());
    b.append_bytes(&extra[..]);
    vassert!(b.len == 5 && b.buf.len() == 5, "accum.append_bytes: the byte count advances by the number of bytes appended (positions of later symbols depend on it)");
    vassert!(b.buf[3] == extra[0] && b.buf[4] == extra[1] && b.buf[2] == hist[H - 1], "accum.append_bytes: appended after the existing history");
    vassert!(b.len() == 5, "accum.len(): total since the last dictionary reset");
    let r = b.last_n(dist);
    match &r {
        Ok(x) => {
            vassert!(dist <= 5, "accum.last_n after append_bytes: within the window");
            let want = if dist <= 2 { extra[2 - dist] } else { hist[H - (dist - 2)] };
            vassert!(*x == want, "accum.last_n after append_bytes: uncompressed bytes are ordinary history");
        }
        Err(_) => {
            vassert!(dist > 5, "accum.last_n after append_bytes: Err only beyond the window");
        }
    }
    forget(r);
    vcover!(dist == 5, "reaches_oldest");
    forget(b);
}

//@ harness props=C12,C01,C15 tier=quick unwind=12 mem_gb=4 timeout=600
//@ bound: LzCircularBuffer::finish on an EMPTY window (nothing ever produced), sink failing or not: the sink is still flushed
#[cfg_attr(kani, kani::proof)]
#[cfg_attr(kani, kani::stub(std::fmt::format, crate::verif_common::stub_format))]
#[cfg_attr(kani, kani::stub(std::io::Error::is_interrupted, crate::verif_common::stub_not_interrupted))]
pub fn circ_finish_empty() {
    let b = LzCircularBuffer {
        stream: RecSink::<8>::new(),
        buf: Vec::new(),
        dict_size: 4096,
        memlimit: usize::MAX,
        cursor: 0,
        len: 0,
    };
    let r = b.finish();
    match &r {
        Ok(s) => {
            vassert!(s.len == 0 && s.writes == 0, "circ.finish(empty): nothing to write");
            vassert!(s.flushes == 1, "circ.finish(empty): the sink is flushed even when nothing was produced");
        }
        Err(_) => {
            vassert!(false, "circ.finish(empty): succeeds on a healthy sink");
        }
    }
    vcover!(true, "end_reached");
    forget(r);
}

//@ harness props=C09,C10,C01 tier=thorough unwind=12 mem_gb=6 timeout=1200 opt_covers=wrap_inside_copy
//@ bound: circular window D=4 cursor=0 full, copy length<=3, any dist
#[cfg_attr(kani, kani::proof)]
#[cfg_attr(kani, kani::stub(std::fmt::format, crate::verif_common::stub_format))]
#[cfg_attr(kani, kani::stub(std::io::Error::is_interrupted, crate::verif_common::stub_not_interrupted))]
pub fn circ_lz_full_d4_c0() {
    circ_lz_full::<4, 0>()
}

//@ harness props=C09,C10,C01 tier=thorough unwind=12 mem_gb=6 timeout=1200
//@ bound: circular window D=4 cursor=1 full, copy length<=3, any dist
#[cfg_attr(kani, kani::proof)]
#[cfg_attr(kani, kani::stub(std::fmt::format, crate::verif_common::stub_format))]
#[cfg_attr(kani, kani::stub(std::io::Error::is_interrupted, crate::verif_common::stub_not_interrupted))]
pub fn circ_lz_full_d4_c1() {
    circ_lz_full::<4, 1>()
}

//@ harness props=C09,C10,C01 tier=thorough unwind=12 mem_gb=6 timeout=1200
//@ bound: circular window D=5 cursor=2 full, copy length<=3, any dist
#[cfg_attr(kani, kani::proof)]
#[cfg_attr(kani, kani::stub(std::fmt::format, crate::verif_common::stub_format))]
#[cfg_attr(kani, kani::stub(std::io::Error::is_interrupted, crate::verif_common::stub_not_interrupted))]
pub fn circ_lz_full_d5_c2() {
    circ_lz_full::<5, 2>()
}

//@ harness props=C09,C10,C01 tier=thorough unwind=12 mem_gb=6 timeout=1200
//@ bound: circular window D=5 cursor=4 full, copy length<=3, any dist
#[cfg_attr(kani, kani::proof)]
#[cfg_attr(kani, kani::stub(std::fmt::format, crate::verif_common::stub_format))]
#[cfg_attr(kani, kani::stub(std::io::Error::is_interrupted, crate::verif_common::stub_not_interrupted))]
pub fn circ_lz_full_d5_c4() {
    circ_lz_full::<5, 4>()
}

//@ harness props=C09,C10,C01 tier=thorough unwind=12 mem_gb=6 timeout=1200 opt_covers=wrap_inside_copy
//@ bound: circular window D=6 cursor=0 full, copy length<=3, any dist
#[cfg_attr(kani, kani::proof)]
#[cfg_attr(kani, kani::stub(std::fmt::format, crate::verif_common::stub_format))]
#[cfg_attr(kani, kani::stub(std::io::Error::is_interrupted, crate::verif_common::stub_not_interrupted))]
pub fn circ_lz_full_d6_c0() {
    circ_lz_full::<6, 0>()
}

//@ harness props=C09,C10,C01 tier=thorough unwind=12 mem_gb=6 timeout=1200
//@ bound: circular window D=6 cursor=5 full, copy length<=3, any dist
#[cfg_attr(kani, kani::proof)]
#[cfg_attr(kani, kani::stub(std::fmt::format, crate::verif_common::stub_format))]
#[cfg_attr(kani, kani::stub(std::io::Error::is_interrupted, crate::verif_common::stub_not_interrupted))]
pub fn circ_lz_full_d6_c5() {
    circ_lz_full::<6, 5>()
}

//@ harness props=C09,C10,C01 tier=thorough unwind=12 mem_gb=6 timeout=1200
//@ bound: circular window D=2 cursor=0 full, copy length<=3, any dist
#[cfg_attr(kani, kani::proof)]
#[cfg_attr(kani, kani::stub(std::fmt::format, crate::verif_common::stub_format))]
#[cfg_attr(kani, kani::stub(std::io::Error::is_interrupted, crate::verif_common::stub_not_interrupted))]
pub fn circ_lz_full_d2_c0() {
    circ_lz_full::<2, 0>()
}

//@ harness props=C09,C01 tier=thorough unwind=12 mem_gb=4 timeout=600
//@ bound: last_n/last_or on circular window D=4 cursor=3 full, any dist
#[cfg_attr(kani, kani::proof)]
#[cfg_attr(kani, kani::stub(std::fmt::format, crate::verif_common::stub_format))]
#[cfg_attr(kani, kani::stub(std::io::Error::is_interrupted, crate::verif_common::stub_not_interrupted))]
pub fn circ_last_full_d4_c3() {
    circ_last_full::<4, 3>()
}

//@ harness props=C09,C01 tier=thorough unwind=12 mem_gb=4 timeout=600
//@ bound: last_n/last_or on circular window D=5 cursor=0 full, any dist
#[cfg_attr(kani, kani::proof)]
#[cfg_attr(kani, kani::stub(std::fmt::format, crate::verif_common::stub_format))]
#[cfg_attr(kani, kani::stub(std::io::Error::is_interrupted, crate::verif_common::stub_not_interrupted))]
pub fn circ_last_full_d5_c0() {
    circ_last_full::<5, 0>()
}

//@ harness props=C09,C01 tier=thorough unwind=12 mem_gb=4 timeout=600
//@ bound: last_n/last_or on circular window D=1 cursor=0 full, any dist
#[cfg_attr(kani, kani::proof)]
#[cfg_attr(kani, kani::stub(std::fmt::format, crate::verif_common::stub_format))]
#[cfg_attr(kani, kani::stub(std::io::Error::is_interrupted, crate::verif_common::stub_not_interrupted))]
pub fn circ_last_full_d1_c0() {
    circ_last_full::<1, 0>()
}

//@ harness props=C09,C01 tier=thorough unwind=12 mem_gb=4 timeout=600
//@ bound: last_n/last_or on circular window D=6 cursor=3 full, any dist
#[cfg_attr(kani, kani::proof)]
#[cfg_attr(kani, kani::stub(std::fmt::format, crate::verif_common::stub_format))]
#[cfg_attr(kani, kani::stub(std::io::Error::is_interrupted, crate::verif_common::stub_not_interrupted))]
pub fn circ_last_full_d6_c3() {
    circ_last_full::<6, 3>()
}
