// Harnesses over src/encode/lzma2.rs (encode_stream): bytes written = canonical LZMA2 framing.
#![allow(dead_code, unused_imports, unused_variables, unused_mut)]

use super::*;
use crate::verif_common::*;
use std::io::{BufRead, Read, Write};

/// Reader that hands out `first` bytes on the first read and the rest on the second
/// (concrete fragment sizes; contents symbolic).
pub struct TwoFragReader<const N: usize> {
    pub buf: [u8; N],
    pub pos: usize,
    pub first: usize,
    pub calls: usize,
}
impl<const N: usize> Read for TwoFragReader<N> {
    fn read(&mut self, dst: &mut [u8]) -> io::Result<usize> {
        self.calls += 1;
        let limit = if self.pos < self.first { self.first - self.pos } else { N - self.pos };
        let n = if dst.len() < limit { dst.len() } else { limit };
        let mut i = 0;
        while i < n {
            dst[i] = self.buf[self.pos + i];
            i += 1;
        }
        self.pos += n;
        Ok(n)
    }
}
impl<const N: usize> BufRead for TwoFragReader<N> {
    fn fill_buf(&mut self) -> io::Result<&[u8]> {
        let limit = if self.pos < self.first { self.first } else { N };
        Ok(&self.buf[self.pos..limit])
    }
    fn consume(&mut self, amt: usize) {
        self.pos += amt;
    }
}

/// N input bytes delivered as fragments (FIRST, N-FIRST); FIRST = N means one read.
fn lzma2_writer<const N: usize, const FIRST: usize, const FAIL: usize>() {
    let mut t = Tape::<16>::new();
    let data: [u8; N] = t.bytes::<N>();
    // the index of the failing write is concrete per instance (a symbolic one makes the sink
    // offset symbolic next to a 64 KiB buffer: measured out of memory)
    let fail_at = FAIL;
    let mut rd = TwoFragReader::<N> { buf: data, pos: 0, first: FIRST, calls: 0 };
    let mut sink = RecSink::<24>::failing(fail_at);
    let r = encode_stream(&mut rd, &mut sink);
    let ok = r.is_ok();
    forget(r);
    // canonical framing: one "uncompressed, reset dictionary" chunk per non-empty read
    let mut exp = [0u8; 24];
    let mut n = 0usize;
    let frags = [FIRST, N - FIRST];
    let mut off = 0usize;
    let mut c = 0;
    while c < 2 {
        let k = frags[c];
        if k > 0 {
            exp[n] = 1;
            exp[n + 1] = ((k - 1) >> 8) as u8;
            exp[n + 2] = (k - 1) as u8;
            n += 3;
            let mut i = 0;
            while i < k {
                exp[n] = data[off + i];
                n += 1;
                i += 1;
            }
            off += k;
        }
        c += 1;
    }
    exp[n] = 0;
    n += 1;
    if ok {
        vassert!(sink.len == n && !sink.overflow, "lzma2 writer: output length");
        let q = (t.u8() as usize) % 24;
        if q < n {
            vassert!(sink.buf[q] == exp[q], "lzma2 writer: output is the canonical chunk framing of the input");
        }
        vassert!(!sink.failed, "lzma2 writer: success means no write failed");
        vcover!(true, "writer_ok");
    } else {
        vassert!(sink.failed, "lzma2 writer: Err only when the sink failed");
        vassert!(!sink.write_after_fail, "lzma2 writer: nothing is written after a failure");
        let q = (t.u8() as usize) % 24;
        if q < sink.len {
            vassert!(sink.len <= n && sink.buf[q] == exp[q], "lzma2 writer: bytes accepted before the failure are a prefix of the correct output");
        }
        vcover!(true, "writer_sink_failed");
    }
    vcover!(true, "end_reached");
}

//@ harness props=C04,C12,C13 tier=quick unwind=6 unwindset=encode_stream:5,lzma2_writer:26,TwoFragReader:6 mem_gb=6 timeout=900 opt_covers=writer_sink_failed
//@ bound: lzma2_compress on 3 symbolic bytes (first read 3 bytes), no sink failure
#[cfg_attr(kani, kani::proof)]
#[cfg_attr(kani, kani::stub(std::fmt::format, crate::verif_common::stub_format))]
#[cfg_attr(kani, kani::stub(std::io::Error::is_interrupted, crate::verif_common::stub_not_interrupted))]
pub fn lzma2_writer_n3_one_read() {
    lzma2_writer::<3, 3, 18446744073709551615>()
}

//@ harness props=C04,C12,C13 tier=quick unwind=6 unwindset=encode_stream:5,lzma2_writer:26,TwoFragReader:6 mem_gb=6 timeout=900 opt_covers=writer_sink_failed
//@ bound: lzma2_compress on 3 symbolic bytes (first read 1 bytes), short reads 1 + 2, no sink failure
#[cfg_attr(kani, kani::proof)]
#[cfg_attr(kani, kani::stub(std::fmt::format, crate::verif_common::stub_format))]
#[cfg_attr(kani, kani::stub(std::io::Error::is_interrupted, crate::verif_common::stub_not_interrupted))]
pub fn lzma2_writer_n3_reads_1_2() {
    lzma2_writer::<3, 1, 18446744073709551615>()
}

//@ harness props=C04,C12,C13 tier=quick unwind=6 unwindset=encode_stream:5,lzma2_writer:26,TwoFragReader:6 mem_gb=6 timeout=900 opt_covers=writer_sink_failed
//@ bound: lzma2_compress on 0 symbolic bytes (first read 0 bytes), empty input
#[cfg_attr(kani, kani::proof)]
#[cfg_attr(kani, kani::stub(std::fmt::format, crate::verif_common::stub_format))]
#[cfg_attr(kani, kani::stub(std::io::Error::is_interrupted, crate::verif_common::stub_not_interrupted))]
pub fn lzma2_writer_empty() {
    lzma2_writer::<0, 0, 18446744073709551615>()
}

//@ harness props=C04,C12,C13 tier=quick unwind=6 unwindset=encode_stream:5,lzma2_writer:26,TwoFragReader:6 mem_gb=6 timeout=900 opt_covers=writer_ok
//@ bound: lzma2_compress on 3 symbolic bytes (first read 3 bytes), sink fails on write 0
#[cfg_attr(kani, kani::proof)]
#[cfg_attr(kani, kani::stub(std::fmt::format, crate::verif_common::stub_format))]
#[cfg_attr(kani, kani::stub(std::io::Error::is_interrupted, crate::verif_common::stub_not_interrupted))]
pub fn lzma2_writer_n3_fail0() {
    lzma2_writer::<3, 3, 0>()
}

//@ harness props=C04,C12,C13 tier=quick unwind=6 unwindset=encode_stream:5,lzma2_writer:26,TwoFragReader:6 mem_gb=6 timeout=900 opt_covers=writer_ok
//@ bound: lzma2_compress on 3 symbolic bytes (first read 3 bytes), sink fails on write 2 (the payload)
#[cfg_attr(kani, kani::proof)]
#[cfg_attr(kani, kani::stub(std::fmt::format, crate::verif_common::stub_format))]
#[cfg_attr(kani, kani::stub(std::io::Error::is_interrupted, crate::verif_common::stub_not_interrupted))]
pub fn lzma2_writer_n3_fail2() {
    lzma2_writer::<3, 3, 2>()
}

//@ harness props=C04,C12,C13 tier=quick unwind=6 unwindset=encode_stream:5,lzma2_writer:26,TwoFragReader:6 mem_gb=6 timeout=900 opt_covers=writer_ok
//@ bound: lzma2_compress on 3 symbolic bytes (first read 3 bytes), sink fails on the final end byte
#[cfg_attr(kani, kani::proof)]
#[cfg_attr(kani, kani::stub(std::fmt::format, crate::verif_common::stub_format))]
#[cfg_attr(kani, kani::stub(std::io::Error::is_interrupted, crate::verif_common::stub_not_interrupted))]
pub fn lzma2_writer_n3_fail3() {
    lzma2_writer::<3, 3, 3>()
}

//@ harness props=C04,C12,C13 tier=quick unwind=6 unwindset=encode_stream:5,lzma2_writer:26,TwoFragReader:6 mem_gb=6 timeout=900 opt_covers=writer_ok
//@ bound: lzma2_compress on 3 symbolic bytes (first read 1 bytes), short reads 1 + 2, sink fails on write 4
#[cfg_attr(kani, kani::proof)]
#[cfg_attr(kani, kani::stub(std::fmt::format, crate::verif_common::stub_format))]
#[cfg_attr(kani, kani::stub(std::io::Error::is_interrupted, crate::verif_common::stub_not_interrupted))]
pub fn lzma2_writer_n3_reads_1_2_fail4() {
    lzma2_writer::<3, 1, 4>()
}

/// Chunk-length arithmetic at the 64 KiB boundary on the real writer: the reader claims to have
/// filled n bytes (n symbolic in 1..=65536) without touching the buffer, the sink records lengths.
pub struct ClaimReader {
    pub n: usize,
    pub calls: usize,
    pub asked: usize,
}
impl Read for ClaimReader {
    fn read(&mut self, dst: &mut [u8]) -> io::Result<usize> {
        self.calls += 1;
        if self.calls == 1 {
            self.asked = dst.len();
            Ok(if self.n < dst.len() { self.n } else { dst.len() })
        } else {
            Ok(0)
        }
    }
}
impl BufRead for ClaimReader {
    fn fill_buf(&mut self) -> io::Result<&[u8]> {
        Ok(&[])
    }
    fn consume(&mut self, _amt: usize) {}
}
pub struct LenSink {
    pub small: [u8; 8],
    pub small_len: usize,
    pub big_len: usize,
    pub bigs: usize,
}
impl Write for LenSink {
    fn write(&mut self, data: &[u8]) -> io::Result<usize> {
        if data.len() <= 2 && self.small_len + data.len() <= 8 {
            let mut i = 0;
            while i < data.len() {
                self.small[self.small_len + i] = data[i];
                i += 1;
            }
            self.small_len += data.len();
        } else {
            self.big_len = data.len();
            self.bigs += 1;
        }
        Ok(data.len())
    }
    fn write_all(&mut self, data: &[u8]) -> io::Result<()> {
        match self.write(data) {
            Ok(_) => Ok(()),
            Err(e) => Err(e),
        }
    }
    fn flush(&mut self) -> io::Result<()> {
        Ok(())
    }
}

//@ harness props=C04 tier=quick unwind=6 unwindset=encode_stream:5 mem_gb=6 timeout=900
//@ bound: lzma2_compress chunk-size field for every read length n in 3..=65536 (including 65535/65536): field + 1 == n, payload length == n, buffer holds 65536 bytes
#[cfg_attr(kani, kani::proof)]
#[cfg_attr(kani, kani::stub(std::fmt::format, crate::verif_common::stub_format))]
#[cfg_attr(kani, kani::stub(std::io::Error::is_interrupted, crate::verif_common::stub_not_interrupted))]
pub fn lzma2_writer_chunk_len_field() {
    let mut t = Tape::<16>::new();
    let n = t.u32() as usize;
    assume(n >= 3 && n <= 0x10000);
    let mut rd = ClaimReader { n, calls: 0, asked: 0 };
    let mut sink = LenSink { small: [0; 8], small_len: 0, big_len: 0, bigs: 0 };
    let r = encode_stream(&mut rd, &mut sink);
    vassert!(r.is_ok(), "lzma2 writer: succeeds");
    forget(r);
    vassert!(rd.asked == 0x10000, "lzma2 writer: reads at most 64 KiB per chunk");
    // small writes: control 1, be16 size, ..., final 0
    vassert!(sink.small_len == 4 && sink.small[0] == 1 && sink.small[3] == 0, "lzma2 writer: control bytes");
    let field = ((sink.small[1] as usize) << 8) | (sink.small[2] as usize);
    vassert!(field + 1 == n, "lzma2 writer: size field is n - 1 for every n up to 65536");
    vassert!(sink.bigs == 1 && sink.big_len == n, "lzma2 writer: payload is exactly the n bytes read");
    vcover!(n == 0x10000, "full_64k_chunk");
    vcover!(n == 0xFFFF, "chunk_65535");
}
