#!/bin/bash
# run every property's check of one tier in sequence; summary at the end
tier=${1:-quick}
for i in 01 02 03 04 05 06 07 08 09 10 11 12 13 14 15 16 17 18; do
  s=$(date +%s)
  ./vcheck C$i --tier $tier > /tmp/runall-C$i.log 2>&1
  rc=$?
  e=$(date +%s)
  echo "C$i rc=$rc wall=$((e-s))s $(grep -c 'decided' /tmp/runall-C$i.log) decided; $(grep -E 'INCONCLUSIVE|VIOLATION|KNOWN-FINDING' /tmp/runall-C$i.log | cut -c1-160 | head -3)"
done
